#!/usr/bin/env python3
"""Regenerates /verif/MANIFEST.json from the tables below (single source of truth)."""
import json, os, subprocess

HERE = os.path.dirname(os.path.dirname(os.path.abspath(__file__)))

CLAIMED = {
    "C01": dict(engine="streamsim", cat="exploration", ref="5.7",
        technique="deterministic simulation: seeded fault-injecting io.Reader / fs.FS (chunking, short and zero reads, EOF and I/O error at every byte offset) around the real parser, compared with one-shot delivery",
        text="Seeded exploration of stream deliveries of every D2 script the repository carries (plus UTF-16 transcodings and byte mutations): chunked, truncated at every offset, failing at every offset, and imported through a chunking/failing fs.FS. Decides only the stream-delivery slice of C01: Parse terminates, does not crash, and returns the same tree and errors however the bytes arrive. Sampling, not proof.",
        note="Trusted: the harness's comparison via d2ast JSON; the corpus harvested from the repository. Not covered: the input-space half of C01 beyond corpus+mutations, and ParseKey/ParseMapKey/ParseValue (string arguments, no stream)."),
    "C48": dict(engine="crashsim", cat="fault_enumeration", ref="5.3",
        technique="deterministic simulation with crash injection: the real CLI runs in-process over syscall-level fault points; every recorded file-system operation (and 3 offsets inside every write) is enumerated as a kill point with crash-freeze, then the target file is compared with its old and new content",
        text="Per generated scenario the crash points are enumerated completely (every file-system system call of the command, plus inside each write), so for the sampled inputs the statement is decided exhaustively; inputs (sizes 28 B - 2 MiB, fmt and single-board render, output present/absent/longer/shorter) are sampled by seed.",
        note="Trusted: the std-library overlay that places the fault points at syscall wrappers; the two simulated file systems (sources/outputs and TMPDIR; renames between them fail with EXDEV in half of the scenarios); crash-freeze as a model of SIGKILL (cross-checked with strace-injected SIGKILL in the thorough tier when available); power-loss durability is out of scope (property says 'killed')."),
    "C46": dict(engine="bundlesim", cat="exploration", ref="5.2",
        technique="deterministic simulation in a synctest bubble: real imgbundler over a simulated HTTP transport and syscall-level file-system fault points; the seeded scheduler decides worker start/completion order, every I/O outcome, stalls, timeouts and caller cancellation; output and error are compared with a sequential reference bundler",
        text="Seeded exploration of worker interleavings x failure subsets x inputs with exact replay. Small image counts (<=3) are visited often enough to cover all completion orders and failure subsets; larger ones (up to 40, beyond the 16-worker semaphore) are sampled. Sampling, not proof.",
        note="Trusted: the reference bundler (eligibility = not data:, http(s) for remote), testing/synctest's fake clock, the std overlay. Worker goroutines run real code; only their park points are owned by the simulator, certified by the per-run determinism re-execution."),
    "C44": dict(engine="watchsim", cat="exploration", ref="5.1",
        technique="deterministic simulation: the real `d2 --watch` (watcher, compile loop, HTTP and WebSocket server) runs in a synctest bubble against simulated editor, inotify, network and browsers; a seeded scheduler owns 22 park points in watch.go, every actor step (saves in three styles of up to three files with imports added and dropped, page navigation between boards, clients connecting/stalling/leaving) and the clock; per-client result order (a subsequence of the stored results) and final delivery are checked over the recorded history, at the end and at checkpoints after saves",
        text="Seeded exploration of interleavings of file changes, compile-loop steps, client connections/disconnections and client write loops with exact replay; bounded liveness (latest content compiled and delivered to every connected client within 60 simulated seconds once the input stops changing and faults stop). Sampling, not proof; thousands of distinct schedules per quick run.",
        note="Trusted: testing/synctest's fake clock and quiescence detection, the std overlay, the simulated inotify semantics (DESIGN.md §3.5), the version extraction from delivered SVGs. Goroutines run real code between park points; the per-run determinism re-execution certifies that what the simulator does not own does not matter."),
    "C45": dict(engine="watchsim", cat="exploration", ref="5.1",
        technique="deterministic simulation: same engine as C44 with the operator's signal injected at tape-chosen points, slow/stalled browser handshakes and a stalled-request-handler fault steered into the shutdown window; admission/handler/close events are checked over the recorded history, plus a leaked-goroutine oracle at the end of the bubble",
        text="Seeded exploration of connection/registration/write-loop/heartbeat/shutdown interleavings with exact replay. Checks that close() returns only when every started handler has exited, that nothing is admitted after close began, that shutdown completes without xmain's forced exit, no panic and no leaked d2cli goroutine. Sampling, not proof.",
        note="Trusted: as C44. The order of ws.admitted/close.begin trace events is the lock order because both are emitted under the client mutex."),
    "C08": dict(engine="pipesim", cat="exploration", ref="5.5",
        technique="deterministic simulation of caller tasks: several compilations of the same and of other inputs run as tasks that a seeded scheduler interleaves in one process, at stage boundaries and at statement level (scheduling points written into the pipeline packages through a source overlay; a task never stops while it holds a lock), with schedules directed at store sites that write state shared between executions (found by profiling), under a runtime seam that makes every map iteration order and select choice a function of the seed; results are compared across executions, seeds, interleavings and against a separate reference process",
        text="Seeded exploration over the repository's script corpus and generated programs: each compiled repeatedly, interleaved with other compilations, under adversarially varied map iteration orders, and in a second process. Decides dependence on order, history, process identity and on interleavings of two compilations down to the statement (a task can lose the CPU between any two statements of d2's own packages; code of dependencies is atomic); exact replay. Sampling of inputs and schedules, not proof.",
        note="Trusted: the std-library overlay (runtime/rand.go, select.go, alg.go, sync/mutex.go) that owns map and select randomness and tells which goroutine holds a lock; cmd/yieldgen's source overlay (text edits at parser positions; if the rewritten tree does not build the engine falls back to stage-level interleaving and says so); d2graph.SerializeGraph as the canonical form of a compiled graph."),
    "C25": dict(engine="pipesim", cat="exploration", ref="5.6",
        technique="as C08, through layout (dagre, ELK) and SVG rendering with options drawn from the seed; SVG bytes compared across executions, interleavings, seeds and processes",
        text="Seeded exploration: byte-identical SVG for the same input and options when rendered repeatedly in one process, interleaved with other diagrams and font registrations at stage boundaries and at statement level (as C08: directed at store sites that write state shared between renders), under varied map orders, and in a separate process. Sampling, not proof; code of dependencies (goja, font and markdown libraries) runs atomically.",
        note="Trusted: as C08. Scripts are bounded in size (2.5 KB quick, 20 KB thorough) to bound layout time."),
}

CLAIMED["C07"] = dict(engine="streamsim", cat="exploration", ref="5.8",
    technique="deterministic simulation of the import file system: the real compiler runs over a seeded fs.FS whose file set, import graph (cycles, nesting, missing files, directories), delivery (chunking, short and empty reads) and failures (open error, read error after k bytes, directory, content changing between opens) come from the tape; checked against a reference model of the import graph and against one-shot delivery",
    text="Import slice of C07 only. Decides, for sampled file sets: the compilation terminates within a budget counted in file-system operations whatever the import graph (cycles of every length), returns a diagram or a non-empty list of errors that all carry a source position, reports (never silently compiles) a reachable import cycle and reports none where there is none, never swallows a failing open or read, and gives the same result however the files are cut into reads. Crashes of the compiler proper on a program (independent of delivery) are the input-space half of C07: sampled, counted in the evidence, not reported. Sampling, not proof.",
    note="Trusted: the reference model of the import graph (depth-first search; the real parser tells it which files have syntax errors and are therefore never compiled); the fault reader shared with C01. CPU time is not observed: the 'time bound' is a bound on opens (100 000) and reads (8*size+2000 per file).")

PENDING = {
}

NA_COMMON = "pure function of its input: the anchored code is synchronous, single-goroutine, reads no clock and does no fallible I/O, so there is no schedule, time or fault for a simulator to own"
NA = {
 "C02": "positions are arithmetic over the decoded rune sequence; the only delivery aspect is already inside C01's tree-equality oracle; otherwise " + NA_COMMON,
 "C03": "Format∘Parse is a string→string function; " + NA_COMMON,
 "C04": "compares two pure compilations of two texts; " + NA_COMMON,
 "C05": "string quoting round trip; " + NA_COMMON,
 "C06": "ID syntax is a function of the compiled graph; " + NA_COMMON,
 "C09": "compile semantics against a reference interpreter; " + NA_COMMON,
 "C10": "compile semantics; " + NA_COMMON,
 "C11": "compile semantics; " + NA_COMMON,
 "C12": "compile semantics; " + NA_COMMON,
 "C13": "compile semantics; " + NA_COMMON,
 "C14": "the file set is a static configuration read once through fs.FS; the statement has no concurrent modification or failing read; " + NA_COMMON,
 "C15": "compile semantics; " + NA_COMMON,
 "C16": "compile semantics; " + NA_COMMON,
 "C17": "layout geometry is a function of the compiled graph (JS engines run synchronously in a per-call runtime); map-order dependence is covered by C25",
 "C18": "layout geometry; see C17",
 "C19": "layout geometry; see C17",
 "C20": "layout geometry; see C17",
 "C21": "layout geometry; see C17",
 "C22": "layout geometry; see C17",
 "C23": "layout geometry; see C17",
 "C24": "layout geometry; see C17",
 "C26": "serialisation is a bytes round trip and the exec transport carries bytes verbatim; plugin-process faults are not in the statement; " + NA_COMMON,
 "C27": "numeric fit inequalities over shape formulas; " + NA_COMMON,
 "C28": "export/render invariant; " + NA_COMMON,
 "C29": "export/render invariant; " + NA_COMMON,
 "C30": "export/render invariant; " + NA_COMMON,
 "C31": "export/render invariant; " + NA_COMMON,
 "C32": "export/render invariant; " + NA_COMMON,
 "C33": "keyframe arithmetic; the 'time' is CSS animation time in a browser, not a clock Go code reads",
 "C34": "the set of paths written/removed is a deterministic function of board names and output path; no crash, fault or schedule in the statement (noted while deciding applicability, not claimed: on the pinned tree a board named \"../../x\" or \"..\" is written outside the output directory, see DESIGN.md §6)",
 "C35": "link resolution and relinking; " + NA_COMMON,
 "C36": "d2oracle is a synchronous API (graph, edit) → (graph, text); an edit history is an input sequence without concurrency, clock, I/O or faults",
 "C37": "d2oracle; see C36",
 "C38": "d2oracle; see C36",
 "C39": "d2oracle; see C36",
 "C40": "d2oracle; see C36",
 "C41": "d2oracle; see C36",
 "C42": "LSP helpers are functions of text and position; " + NA_COMMON,
 "C43": "flate + base64 in memory; " + NA_COMMON,
 "C47": "font subsetting vs. drawn characters; " + NA_COMMON,
}

def hook_commits():
    p = os.path.join(HERE, "hook_commits.txt")
    if os.path.exists(p):
        return [l.split()[0] for l in open(p) if l.strip() and not l.startswith("#")]
    return []

def main():
    ids = [json.loads(l)["id"] for l in open(os.path.join(HERE, "properties.jsonl"))]
    checks = []
    for pid in ids:
        if pid in CLAIMED:
            c = CLAIMED[pid]
            checks.append({
                "property_id": pid,
                "quick_cmd": "./run_check.sh %s quick" % pid,
                "thorough_cmd": "./run_check.sh %s thorough" % pid,
                "evidence_file": "/verif/evidence/%s.json" % pid,
                "replay_cmd_template": "./run_check.sh %s --replay {path}" % pid,
                "engine": c["engine"],
                "level_claimed": {"category": c["cat"], "text": c["text"], "design_ref": "DESIGN.md §" + c["ref"]},
                "level_note": c["note"],
                "technique": c["technique"],
            })
    na = []
    for pid in ids:
        if pid in CLAIMED:
            continue
        if pid in PENDING:
            na.append({"property_id": pid, "reason": PENDING[pid]})
        else:
            na.append({"property_id": pid, "reason": "not applicable to deterministic simulation: " + NA[pid]})
    engines = {}
    for pid, c in CLAIMED.items():
        engines.setdefault(c["engine"], []).append(pid)
    m = {
        "version": 1,
        "setup_cmd": "./setup.sh",
        "hooks": {
            "guard": "verif",
            "enable": "engines are built with `go1.26.8 test -c -tags verif -overlay .build/overlay/overlay.json` from /repo's working tree (replace oss.terrastruct.com/d2 => /repo)",
            "baseline_off_cmd": "cd /repo && go test -vet=off -count=1 -timeout 25m ./...",
            "source_commits": hook_commits(),
            "add_only": True,
        },
        "engines": [{"name": e, "path": "/verif/sim/engines/" + e, "serves_properties": sorted(ps),
                     "kind_free_text": "Go test binary; one process = many seeded simulated runs; driven by sim/cmd/vdriver"} for e, ps in sorted(engines.items())],
        "checks": checks,
        "not_applicable": na,
        "notes": "Technique: deterministic simulation with fault injection (DESIGN.md). Exit 0 held / 1 VIOLATION / 2 harness or build trouble. VERIF_SEED selects the master seed.",
    }
    with open(os.path.join(HERE, "MANIFEST.json"), "w") as f:
        json.dump(m, f, indent=1, ensure_ascii=False)
        f.write("\n")
    print("claimed:", sorted(CLAIMED), "n/a:", len(na))

main()
