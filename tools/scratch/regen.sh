#!/bin/bash
# usage: regen.sh <prop> <fix-commit> <name> <budget> [file...]   -- find the repaired defect again on a tree without the repair; keep the minimised replay
P=$1; C=$2; N=$3; B=$4; shift 4
cd /tmp/wt1 && git checkout -q -- . && git clean -fdq && git checkout -q --detach main || exit 1
git show $C -- "$@" | git apply -R || { echo "cannot revert $C"; exit 1; }
cd /verif && VSIM_REPO=/tmp/wt1 timeout 3000 ./run_check.sh $P quick -noevidence -budget $B 2>&1 | grep "^VIOLATION\|^O[0-9]\|^OK\|HARNESS" | head -3 | cut -c1-300 > /tmp/regen.out
cat /tmp/regen.out
R=$(grep -o "replay=.*" /tmp/regen.out | head -1 | cut -d= -f2)
[ -n "$R" ] && cp "$R" /verif/regressions/$N.json && echo "kept $N"
cd /tmp/wt1 && git checkout -q -- .
