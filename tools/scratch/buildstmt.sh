#!/bin/bash
# usage: buildstmt.sh [repo]  -> builds /verif/.build/bin/pipesim.test with statement-level points from repo's working tree
R=${1:-/repo}
export GOFLAGS=-mod=mod GOPROXY=off GOSUMDB=off GOTOOLCHAIN=local CGO_ENABLED=0
cd /verif/sim && go1.26.8 build -o ../.build/bin/yieldgen ./cmd/yieldgen && rm -rf ../.build/yield && ../.build/bin/yieldgen -repo $R -out ../.build/yield && python3 - <<PY
import json
a=json.load(open('/verif/.build/overlay/overlay.json'))['Replace']
b=json.load(open('/verif/.build/yield/src-overlay.json'))['Replace']
a.update(b)
json.dump({'Replace':a},open('/verif/.build/yield/merged.json','w'))
PY
if [ "$R" != /repo ]; then sed "s#oss.terrastruct.com/d2 => /repo#oss.terrastruct.com/d2 => $R#; s#=> ./third_party#=> /verif/sim/third_party#" go.mod > /tmp/alt.mod; cp $R/go.sum /tmp/alt.sum; MF="-modfile /tmp/alt.mod"; fi
go1.26.8 test $MF -c -tags verif -overlay ../.build/yield/merged.json -o ../.build/bin/pipesim.test ./engines/pipesim
