#!/bin/bash
# usage: confirm.sh <id> <pkgdir> <demofile-in-sa_out> <run-regex> [extra go test flags]
ID=$1; PKG=$2; DEMO=$3; RX=$4; shift 4
WT=/tmp/wt1; OUT=/tmp/sa_out/$ID
cd $WT && git checkout -q -- . && git clean -fdq
git apply $OUT/patch.diff || { echo "PATCH DOES NOT APPLY"; exit 1; }
go build ./... || { echo "BUILD FAILS"; exit 1; }
go vet ./$PKG/ >/dev/null 2>&1 || echo "VET: not clean"
go test -count=1 ./$PKG/ 2>&1 | tail -3
cp $OUT/$DEMO $WT/$PKG/zz_demo_test.go
echo "--- demo WITH change (expect FAIL)"
go test -count=1 "$@" ./$PKG/ -run "$RX" 2>&1 | tail -4
git apply -R $OUT/patch.diff
echo "--- demo WITHOUT change (expect ok)"
go test -count=1 "$@" ./$PKG/ -run "$RX" 2>&1 | tail -3
git checkout -q -- . && git clean -fdq
