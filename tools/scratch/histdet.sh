#!/bin/bash
# usage: histdet.sh <prop> <engine> <n>   -- runs indices 0..n-1 in different orders/subsets in fresh processes and compares per-index logs
PROP=$1; ENG=$2; N=$3
BIN=/verif/.build/bin/$ENG.test
D=$(mktemp -d /tmp/histdet.XXXX)
ALL=$(seq -s, 0 $((N-1))); REV=$(seq -s, $((N-1)) -1 0); ODD=$(seq -s, 1 2 $((N-1))); EVEN=$(seq -s, 0 2 $((N-1)))
i=0
for L in $ALL $REV $ODD $EVEN; do i=$((i+1)); (GOMAXPROCS=2 VSIM_DETLOG=1 VSIM_DETN=1000000 VSIM_PROP=$PROP VSIM_TIER=quick VSIM_MASTER=${VERIF_SEED:-20260921} VSIM_INDICES=$L VSIM_OUT=$D/o$i.json timeout 3000 $BIN -test.run '^TestEngine$' -test.timeout 0 >/dev/null 2>&1) & done; wait
python3 - "$D" <<'PY'
import json,sys,glob,collections
d=sys.argv[1]
by=collections.defaultdict(collections.Counter)
for f in glob.glob(d+'/o*.json'):
    for l in json.load(open(f)).get('log') or []:
        i=l.split(' ',1); by[int(i[0])][i[1]]+=1
bad=[(k,v) for k,v in sorted(by.items()) if len(v)>1]
print("indices:",len(by),"history-dependent indices:",len(bad))
for k,v in bad[:10]: print(" idx",k,dict(v))
PY
rm -rf $D
