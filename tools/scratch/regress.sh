#!/bin/bash
# usage: regress.sh <id> [budget]  -- applies /verif/seeded/<id>/patch.diff in /tmp/wt1 and runs its property's quick check
ID=$1; B=${2:-75}
P=$(python3 -c "import json;print(json.load(open('/verif/seeded/$ID/meta.json'))['property'])" 2>/dev/null)
cd /tmp/wt1 && git checkout -q -- . && git clean -fdq && git apply /verif/seeded/$ID/patch.diff || { echo "$ID: patch does not apply"; exit 1; }
echo "=== $ID ($P)"
/tmp/mut.sh $P /tmp/wt1 $B | tail -3
cd /tmp/wt1 && git checkout -q -- . && git clean -fdq
