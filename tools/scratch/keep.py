import json,os,shutil,sys
k,prop,title,needs,demo,check=sys.argv[1:7]
d=f'/verif/seeded/{k}'; os.makedirs(d,exist_ok=True)
src=f'/tmp/sa_out/{k}'
for f in os.listdir(src):
    if f.endswith('.log') or f.endswith('.txt') and f not in ('patch.diff',) or f.lower().startswith('_foreign') or f.startswith('FOREIGN'): continue
    if os.path.isdir(os.path.join(src,f)): continue
    shutil.copy(os.path.join(src,f), os.path.join(d, 'AUTHOR_NOTES.md' if f=='NOTES.md' else f))
meta=dict(id=k,property=prop,title=title,
  origin='written by a sub-agent that saw only the property text and a scratch worktree (nothing from /verif)',
  needs_to_manifest=needs,demonstration=demo,
  confirmed_by_me='scratch worktree /tmp/wt1 at /repo HEAD (/tmp/confirm.sh): patch applies, go build ./... ok, go test of the touched package ok with the patch, demonstration fails with the patch and passes without it',
  check_result=check)
json.dump(meta,open(d+'/meta.json','w'),indent=1)
print(sorted(os.listdir(d)))
