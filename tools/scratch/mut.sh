#!/bin/bash
# usage: mut.sh <prop> <repo-dir-with-change-applied> [budget-seconds] [extra driver flags]
P=$1; D=$2; B=${3:-60}; shift 3 2>/dev/null
cd /verif && VSIM_REPO=$D timeout 1800 ./run_check.sh $P quick -noevidence -nomin -budget $B "$@" 2>&1 | grep -v "^faults fired\|^probes" | tail -8
