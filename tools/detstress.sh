#!/bin/bash
# usage: tools/detstress.sh <property> <engine> <n-indices> <repeats>
# Runs run indices 0..n-1 in <repeats> fresh processes at GOMAXPROCS 1/4/16 (several at once,
# i.e. under load) and reports every index whose (schedule hash, trace hash, verdict) line is
# not the same in all of them. Exit 1 when any differs.
PROP=$1; ENG=$2; N=$3; R=$4
BIN=/verif/.build/bin/$ENG.test
D=$(mktemp -d /tmp/detstress.XXXX)
IDX=$(seq -s, 0 $((N-1)))
for r in $(seq 1 $R); do
  g=$(( (r % 3 == 0) ? 16 : (r % 3 == 1 ? 1 : 4) ))
  (GOMAXPROCS=$g VSIM_DETLOG=1 VSIM_DETN=1000000 VSIM_PROP=$PROP VSIM_TIER=quick VSIM_MASTER=${VERIF_SEED:-20260921} VSIM_INDICES=$IDX VSIM_OUT=$D/o$r.json timeout 3000 $BIN -test.run '^TestEngine$' -test.timeout 0 >/dev/null 2>&1) &
  if (( r % 6 == 0 )); then wait; fi
done
wait
python3 - "$D" <<'PY'
import json,sys,glob,collections
d=sys.argv[1]
by=collections.defaultdict(collections.Counter)
n=0
for f in glob.glob(d+'/o*.json'):
    n+=1
    for l in json.load(open(f)).get('log') or []:
        i=l.split(' ',1)
        by[int(i[0])][i[1]]+=1
bad=[(k,v) for k,v in sorted(by.items()) if len(v)>1]
print("processes:",n,"indices:",len(by),"nondeterministic indices:",len(bad))
for k,v in bad[:10]: print(" idx",k,dict(v))
sys.exit(1 if bad else 0)
PY
rc=$?
rm -rf $D
exit $rc
