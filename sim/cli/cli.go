// Package cli starts the real d2 command line (d2cli.Run) in-process on simulated stdio,
// environment and working directory — the existing xmain.State seam.
package cli

import (
	"bytes"
	"context"
	"os"
	"sync"

	"oss.terrastruct.com/d2/d2cli"
	"oss.terrastruct.com/util-go/cmdlog"
	"oss.terrastruct.com/util-go/xmain"
	"oss.terrastruct.com/util-go/xos"
)

type Buf struct {
	mu sync.Mutex
	b  bytes.Buffer
}

func (b *Buf) Write(p []byte) (int, error) {
	b.mu.Lock()
	defer b.mu.Unlock()
	return b.b.Write(p)
}
func (b *Buf) Close() error { return nil }
func (b *Buf) String() string {
	b.mu.Lock()
	defer b.mu.Unlock()
	return b.b.String()
}

type Proc struct {
	MS     *xmain.State
	Stdout *Buf
	Stderr *Buf
}

// New builds the State exactly like xmain.Main does, but from simulated parts.
func New(pwd string, env []string, args ...string) *Proc {
	p := &Proc{Stdout: &Buf{}, Stderr: &Buf{}}
	e := xos.NewEnv(append([]string{"HOME=/nonexistent-verif-home", "BROWSER=0", "NO_COLOR=1"}, env...))
	ms := &xmain.State{
		Name:   "d2",
		Stdin:  bytes.NewReader(nil),
		Stdout: p.Stdout,
		Stderr: p.Stderr,
		Env:    e,
		PWD:    pwd,
	}
	ms.Log = cmdlog.New(e, p.Stderr)
	ms.Opts = xmain.NewOpts(e, args)
	p.MS = ms
	return p
}

// Run executes the command to completion on the calling goroutine (no signal handling).
func (p *Proc) Run(ctx context.Context) error {
	return d2cli.Run(ctx, p.MS)
}

// Main executes the command the way the real main does: through State.Main with a signal
// channel, which is the real shutdown path.
func (p *Proc) Main(ctx context.Context, sigs <-chan os.Signal) error {
	return p.MS.Main(ctx, sigs, d2cli.Run)
}
