// Package corpus harvests every D2 script the repository carries: .d2 files, txtar
// archives of the e2e tests, and the string literals of the script/text fields of the Go
// test tables (extracted with go/parser at run time, so the corpus follows the tree).
package corpus

import (
	"go/ast"
	"go/parser"
	"go/token"
	"os"
	"path/filepath"
	"sort"
	"strconv"
	"strings"
)

type Entry struct {
	Name  string
	Text  string
	Files map[string]string // importable files, if the test table supplied them
}

func RepoDir() string {
	if d := os.Getenv("VSIM_REPO"); d != "" {
		return d
	}
	return "/repo"
}

// Load returns the corpus in a deterministic order (sorted by name), deduplicated by
// text+files.
func Load() []Entry {
	root := RepoDir()
	var out []Entry
	filepath.Walk(root, func(p string, info os.FileInfo, err error) error {
		if err != nil {
			return nil
		}
		if info.IsDir() {
			b := info.Name()
			if b == "node_modules" || b == ".git" {
				return filepath.SkipDir
			}
			return nil
		}
		rel, _ := filepath.Rel(root, p)
		switch {
		case strings.HasSuffix(p, ".d2"):
			if b, err := os.ReadFile(p); err == nil {
				out = append(out, Entry{Name: "file:" + rel, Text: string(b)})
			}
		case strings.HasSuffix(p, "txtar.txt"):
			if b, err := os.ReadFile(p); err == nil {
				out = append(out, txtar(rel, string(b))...)
			}
		case strings.HasSuffix(p, "_test.go"):
			out = append(out, goLiterals(rel, p)...)
		}
		return nil
	})
	sort.SliceStable(out, func(i, j int) bool { return out[i].Name < out[j].Name })
	seen := map[string]bool{}
	var uniq []Entry
	for _, e := range out {
		k := e.Text
		if len(e.Files) > 0 {
			var ks []string
			for n, c := range e.Files {
				ks = append(ks, n+"\x00"+c)
			}
			sort.Strings(ks)
			k += "\x01" + strings.Join(ks, "\x01")
		}
		if seen[k] || strings.TrimSpace(e.Text) == "" {
			continue
		}
		seen[k] = true
		uniq = append(uniq, e)
	}
	return uniq
}

func txtar(rel, s string) []Entry {
	var out []Entry
	var name string
	var body []string
	flush := func() {
		if name != "" {
			out = append(out, Entry{Name: "txtar:" + rel + ":" + name, Text: strings.Join(body, "\n") + "\n"})
		}
		body = nil
	}
	for _, line := range strings.Split(s, "\n") {
		if strings.HasPrefix(line, "-- ") && strings.HasSuffix(line, " --") {
			flush()
			name = strings.TrimSuffix(strings.TrimPrefix(line, "-- "), " --")
			continue
		}
		body = append(body, line)
	}
	flush()
	return out
}

func goLiterals(rel, path string) []Entry {
	fset := token.NewFileSet()
	f, err := parser.ParseFile(fset, path, nil, parser.SkipObjectResolution)
	if err != nil {
		return nil
	}
	var out []Entry
	ast.Inspect(f, func(n ast.Node) bool {
		cl, ok := n.(*ast.CompositeLit)
		if !ok {
			return true
		}
		var text string
		var have bool
		var name string
		var files map[string]string
		for _, el := range cl.Elts {
			kv, ok := el.(*ast.KeyValueExpr)
			if !ok {
				continue
			}
			id, ok := kv.Key.(*ast.Ident)
			if !ok {
				continue
			}
			switch id.Name {
			case "script", "text":
				if s, ok := strLit(kv.Value); ok {
					text, have = s, true
				}
			case "name":
				if s, ok := strLit(kv.Value); ok {
					name = s
				}
			case "files":
				if m, ok := kv.Value.(*ast.CompositeLit); ok {
					files = map[string]string{}
					for _, fe := range m.Elts {
						fkv, ok := fe.(*ast.KeyValueExpr)
						if !ok {
							continue
						}
						k, ok1 := strLit(fkv.Key)
						v, ok2 := strLit(fkv.Value)
						if ok1 && ok2 {
							files[k] = v
						}
					}
				}
			}
		}
		if have {
			pos := fset.Position(cl.Pos())
			out = append(out, Entry{Name: "go:" + rel + ":" + strconv.Itoa(pos.Line) + ":" + name, Text: text, Files: files})
		}
		return true
	})
	return out
}

func strLit(e ast.Expr) (string, bool) {
	switch v := e.(type) {
	case *ast.BasicLit:
		if v.Kind == token.STRING {
			s, err := strconv.Unquote(v.Value)
			return s, err == nil
		}
	case *ast.BinaryExpr:
		if v.Op == token.ADD {
			a, ok1 := strLit(v.X)
			b, ok2 := strLit(v.Y)
			return a + b, ok1 && ok2
		}
	}
	return "", false
}
