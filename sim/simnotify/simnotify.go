// Package simnotify is the simulated inotify behind the fsnotify stand-in. Watches are on
// inodes (as with inotify on a file): modifying the inode yields Write, attribute changes
// Chmod, unlinking the last link Remove (and the kernel drops the watch), renaming the
// watched path Rename (and fsnotify drops the watch). Events are queued and handed to the
// watcher one per scheduler decision, by a blocking send, so they pile up while the
// consumer is busy.
package simnotify

import (
	"errors"
	"fmt"
	"os"
	"path/filepath"
	"sync"
	"syscall"

	"github.com/fsnotify/fsnotify"

	"verifsim/sched"
)

type watch struct {
	path string
	ino  uint64
}

type Kernel struct {
	Sim *sched.Sim
	// Fault weights (0 = off).
	DupWeight, DropWriteWeight, AddFailWeight int
	ErrWeight                                 int // an error on the watcher's Errors channel
	OnFault                                   func(kind string)

	mu      sync.Mutex
	w       *fsnotify.Watcher
	watches map[string]*watch
	queue   []fsnotify.Event
	closed  bool
	done    chan struct{}
	wake    chan struct{}
	// Delivered counts events handed to the watcher.
	Delivered int
	NoFaults  bool
}

func New(sim *sched.Sim) *Kernel {
	return &Kernel{Sim: sim, watches: map[string]*watch{}, done: make(chan struct{}), wake: make(chan struct{}, 1)}
}

func (k *Kernel) fault(kind string) {
	if k.OnFault != nil {
		k.OnFault(kind)
	}
}

// Backend is installed as fsnotify.SimNewBackend.
func (k *Kernel) Backend(w *fsnotify.Watcher) (fsnotify.Backend, error) {
	k.mu.Lock()
	k.w = w
	k.mu.Unlock()
	go k.deliverLoop()
	return k, nil
}

func ino(path string) (uint64, error) {
	var st syscall.Stat_t
	if err := syscall.Stat(path, &st); err != nil {
		return 0, err
	}
	return st.Ino, nil
}

// Ino returns the inode of path (0 if it does not exist).
func Ino(path string) uint64 {
	i, _ := ino(path)
	return i
}

func (k *Kernel) Add(path string) error {
	path = filepath.Clean(path)
	opts := []sched.Option{{"ok", 12}, {"fail", k.weight(k.AddFailWeight)}}
	if k.Sim.Park("fsn:add:"+filepath.Base(path), opts) == 1 {
		k.fault("fsnotify_add_failed_transiently")
		return errors.New("simulated transient inotify_add_watch failure")
	}
	k.mu.Lock()
	defer k.mu.Unlock()
	if k.closed {
		return fsnotify.ErrClosed
	}
	i, err := ino(path)
	if err != nil {
		return &os.PathError{Op: "inotify_add_watch", Path: path, Err: err}
	}
	k.watches[path] = &watch{path: path, ino: i}
	return nil
}

func (k *Kernel) weight(w int) int {
	if k.NoFaults {
		return 0
	}
	return w
}

func (k *Kernel) Remove(path string) error {
	path = filepath.Clean(path)
	k.mu.Lock()
	defer k.mu.Unlock()
	if _, ok := k.watches[path]; !ok {
		return fmt.Errorf("%w: %s", fsnotify.ErrNonExistentWatch, path)
	}
	delete(k.watches, path)
	return nil
}

func (k *Kernel) WatchList() []string {
	k.mu.Lock()
	defer k.mu.Unlock()
	out := make([]string, 0, len(k.watches))
	for p := range k.watches { // map order: deterministic per run through the runtime seam
		out = append(out, p)
	}
	return out
}

func (k *Kernel) Close() error {
	k.mu.Lock()
	if k.closed {
		k.mu.Unlock()
		return nil
	}
	k.closed = true
	close(k.done)
	k.mu.Unlock()
	return nil
}

func (k *Kernel) enqueue(ev fsnotify.Event) {
	k.queue = append(k.queue, ev)
	select {
	case k.wake <- struct{}{}:
	default:
	}
}

// ---- what the simulated editor reports (after doing it to the real file system)

// Modified: the inode's data changed (write, truncate).
func (k *Kernel) Modified(i uint64) { k.onInode(i, fsnotify.Write, false) }

// Attrib: the inode's metadata changed (chmod, utimes, link count).
func (k *Kernel) Attrib(i uint64) { k.onInode(i, fsnotify.Chmod, false) }

// Unlinked: the last link to the inode went away (unlink, or rename of another file over it).
func (k *Kernel) Unlinked(i uint64) {
	k.onInode(i, fsnotify.Chmod, false)
	k.onInode(i, fsnotify.Remove, true)
}

// Moved: the watched path was renamed away.
func (k *Kernel) Moved(i uint64) { k.onInode(i, fsnotify.Rename, true) }

func (k *Kernel) onInode(i uint64, op fsnotify.Op, dropWatch bool) {
	k.mu.Lock()
	defer k.mu.Unlock()
	if k.closed || i == 0 {
		return
	}
	for p, w := range k.watches {
		if w.ino == i {
			k.enqueue(fsnotify.Event{Name: p, Op: op})
			if dropWatch {
				delete(k.watches, p)
			}
		}
	}
}

// Pending returns the number of queued events.
func (k *Kernel) Pending() int {
	k.mu.Lock()
	defer k.mu.Unlock()
	return len(k.queue)
}

func (k *Kernel) deliverLoop() {
	defer func() {
		close(k.w.Events)
		close(k.w.Errors)
	}()
	for {
		k.mu.Lock()
		n := len(k.queue)
		k.mu.Unlock()
		if n == 0 {
			select {
			case <-k.wake:
				continue
			case <-k.done:
				return
			}
		}
		opts := []sched.Option{{"deliver", 12}, {"duplicate", k.weight(k.DupWeight)}, {"drop-write", k.weight(k.DropWriteWeight)}, {"error", k.weight(k.ErrWeight)}}
		c := k.Sim.Park("kernel:deliver", opts)
		if c == 3 {
			// The backend reports an error (read error on the inotify descriptor, a path it
			// could not resolve). Nothing is lost: the queue is untouched.
			k.fault("fsnotify_error_reported")
			select {
			case k.w.Errors <- errors.New("simulated fsnotify error"):
			case <-k.done:
				return
			}
			continue
		}
		k.mu.Lock()
		if len(k.queue) == 0 {
			k.mu.Unlock()
			continue
		}
		ev := k.queue[0]
		k.queue = k.queue[1:]
		k.mu.Unlock()
		switch c {
		case 1:
			k.fault("fsnotify_event_duplicated")
			if !k.send(ev) {
				return
			}
		case 2:
			// Only a plain Write is ever dropped: the watch stays, and the change remains
			// detectable through the modification time (the poll branch).
			if ev.Op == fsnotify.Write {
				k.fault("fsnotify_write_event_dropped")
				continue
			}
		}
		if !k.send(ev) {
			return
		}
	}
}

func (k *Kernel) send(ev fsnotify.Event) bool {
	select {
	case k.w.Events <- ev:
		k.mu.Lock()
		k.Delivered++
		k.mu.Unlock()
		return true
	case <-k.done:
		return false
	}
}
