// Package simnet is the in-memory network of the watch simulation: a net.Listener whose
// Accept hands out the server ends of net.Pipe connections (synchronous, deadline-aware
// and durably blocking inside a synctest bubble).
package simnet

import (
	"errors"
	"net"
	"sync"
)

type addr string

func (a addr) Network() string { return "sim" }
func (a addr) String() string  { return string(a) }

type conn struct {
	net.Conn
	local, remote addr
}

func (c *conn) LocalAddr() net.Addr  { return c.local }
func (c *conn) RemoteAddr() net.Addr { return c.remote }

type Listener struct {
	mu     sync.Mutex
	closed bool
	queue  chan net.Conn
	done   chan struct{}
	// Accepted counts connections handed to the server.
	Accepted int
}

func NewListener() *Listener {
	return &Listener{queue: make(chan net.Conn, 64), done: make(chan struct{})}
}

func (l *Listener) Accept() (net.Conn, error) {
	select {
	case c := <-l.queue:
		l.mu.Lock()
		l.Accepted++
		l.mu.Unlock()
		return c, nil
	case <-l.done:
		return nil, net.ErrClosed
	}
}

func (l *Listener) Close() error {
	l.mu.Lock()
	defer l.mu.Unlock()
	if l.closed {
		return net.ErrClosed
	}
	l.closed = true
	close(l.done)
	return nil
}

func (l *Listener) Closed() bool {
	l.mu.Lock()
	defer l.mu.Unlock()
	return l.closed
}

func (l *Listener) Addr() net.Addr { return addr("sim-watch-server:0") }

var ErrRefused = errors.New("simnet: connection refused (listener closed)")

// Dial connects a client named name; the server sees name as the remote address.
func (l *Listener) Dial(name string) (net.Conn, error) {
	l.mu.Lock()
	if l.closed {
		l.mu.Unlock()
		return nil, ErrRefused
	}
	l.mu.Unlock()
	c, s := net.Pipe()
	sc := &conn{Conn: s, local: "sim-watch-server:0", remote: addr(name)}
	cc := &conn{Conn: c, local: addr(name), remote: "sim-watch-server:0"}
	select {
	case l.queue <- sc:
		return cc, nil
	case <-l.done:
		c.Close()
		s.Close()
		return nil, ErrRefused
	}
}
