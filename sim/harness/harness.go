// Package harness is the worker side of the protocol between cmd/vdriver and the engine
// test binaries. One worker process executes many simulated runs (one tape each) or
// replays exactly one tape, and writes a single JSON summary to $VSIM_OUT.
package harness

import (
	"encoding/json"
	"fmt"
	"hash/fnv"
	"os"
	"regexp"
	"runtime"
	"runtime/debug"
	"sort"
	"strconv"
	"strings"
	"time"

	"verifsim/tape"
)

// Result of one simulated run.
type Result struct {
	// Oracle is "" when every oracle held, otherwise the id of the first violated one
	// (e.g. "O44.2"). Property is the property id the oracle belongs to.
	Oracle   string `json:"oracle,omitempty"`
	Property string `json:"property,omitempty"`
	Msg      string `json:"msg,omitempty"`
	// HarnessError marks trouble in the harness itself (never a violation).
	HarnessError string `json:"harness_error,omitempty"`

	Trace []string `json:"trace,omitempty"`
	// DetKey, when set, is what the determinism check compares instead of the schedule and
	// trace hashes (an engine whose schedule cannot be the same in two processes although
	// its results must be).
	DetKey     string         `json:"det_key,omitempty"`
	SchedHash  uint64         `json:"sched_hash"`
	Nontrivial bool           `json:"nontrivial"`
	Faults     map[string]int `json:"faults,omitempty"`
	Probes     map[string]int `json:"probes,omitempty"`
	SimSeconds float64        `json:"sim_seconds"`
	Steps      int            `json:"steps"`
	Sample     any            `json:"sample,omitempty"`
	// Evals is the number of executions this run stands for (0 = 1); ExtraHashes are
	// further distinct non-trivial cases it covered (e.g. one per enumerated crash point).
	Evals       int      `json:"evals,omitempty"`
	ExtraHashes []uint64 `json:"extra_hashes,omitempty"`
}

func (r *Result) Fault(kind string) {
	if r.Faults == nil {
		r.Faults = map[string]int{}
	}
	r.Faults[kind]++
}

func (r *Result) Probe(kind string) { r.ProbeN(kind, 1) }

func (r *Result) ProbeN(kind string, n int) {
	if r.Probes == nil {
		r.Probes = map[string]int{}
	}
	r.Probes[kind] += n
}

// Fail records the first violation only.
func (r *Result) Fail(property, oracle, format string, a ...any) {
	if r.Oracle != "" {
		return
	}
	r.Property, r.Oracle, r.Msg = property, oracle, fmt.Sprintf(format, a...)
}

func (r *Result) Tracef(format string, a ...any) {
	r.Trace = append(r.Trace, fmt.Sprintf(format, a...))
}

// Config of a worker, from the environment.
type Config struct {
	Property string // property the check was started for
	Tier     string
	Master   uint64
	Worker   int // index of this worker
	Workers  int // stride
	MaxRuns  int // per worker
	Budget   time.Duration
	Replay   string // path of a replay file: run exactly that tape
	Out      string
	Extra    map[string]string
}

func (c Config) Thorough() bool { return c.Tier == "thorough" }

func envInt(k string, def int) int {
	if v, err := strconv.Atoi(os.Getenv(k)); err == nil {
		return v
	}
	return def
}

func LoadConfig() Config {
	c := Config{
		Property: os.Getenv("VSIM_PROP"),
		Tier:     os.Getenv("VSIM_TIER"),
		Worker:   envInt("VSIM_WORKER", 0),
		Workers:  envInt("VSIM_WORKERS", 1),
		MaxRuns:  envInt("VSIM_MAXRUNS", 1<<30),
		Budget:   time.Duration(envInt("VSIM_BUDGET_MS", 10000)) * time.Millisecond,
		Replay:   os.Getenv("VSIM_REPLAY"),
		Out:      os.Getenv("VSIM_OUT"),
		Extra:    map[string]string{},
	}
	c.Master, _ = strconv.ParseUint(os.Getenv("VSIM_MASTER"), 10, 64)
	for _, kv := range os.Environ() {
		if strings.HasPrefix(kv, "VSIM_X_") {
			i := strings.IndexByte(kv, '=')
			c.Extra[kv[len("VSIM_X_"):i]] = kv[i+1:]
		}
	}
	if c.Tier == "" {
		c.Tier = "quick"
	}
	return c
}

// ReplayFile is what a violation is reported as, and what --replay consumes.
type ReplayFile struct {
	Property  string            `json:"property"`
	Oracle    string            `json:"oracle"`
	Msg       string            `json:"msg"`
	Engine    string            `json:"engine"`
	Tier      string            `json:"tier"`
	Master    uint64            `json:"master_seed"`
	RunIndex  int               `json:"run_index"`
	Seed      uint64            `json:"seed"`
	Tape      []int             `json:"tape"`
	Labels    []string          `json:"tape_labels,omitempty"`
	Trace     []string          `json:"trace,omitempty"`
	Minimised bool              `json:"minimised"`
	FromSeed  bool              `json:"from_seed,omitempty"` // tape is regenerated from Seed (the process crashed before a tape was saved)
	OrigLen   int               `json:"original_tape_len,omitempty"`
	Extra     map[string]string `json:"extra,omitempty"`
	SutCommit string            `json:"sut_commit,omitempty"`
	GoVersion string            `json:"go_version,omitempty"`
}

type Failure struct {
	RunIndex int      `json:"run_index"`
	Seed     uint64   `json:"seed"`
	Result   Result   `json:"result"`
	Tape     []int    `json:"tape"`
	Labels   []string `json:"labels,omitempty"`
}

// Summary is the single JSON document a worker writes.
type Summary struct {
	Worker      int            `json:"worker"`
	Runs        int            `json:"runs"`
	Evals       int            `json:"evals"`
	Nontrivial  int            `json:"nontrivial"`
	Hashes      []uint64       `json:"hashes"` // schedule hashes of the non-trivial runs (deduplicated)
	Faults      map[string]int `json:"faults"`
	Probes      map[string]int `json:"probes"`
	SimSeconds  float64        `json:"sim_seconds"`
	Steps       int            `json:"steps"`
	WallSeconds float64        `json:"wall_seconds"`
	Samples     []any          `json:"samples"`
	Failures    []Failure      `json:"failures"`
	Others      map[string]int `json:"other_property_failures,omitempty"`
	HarnessErr  string         `json:"harness_error,omitempty"`
	Log         []string       `json:"log,omitempty"` // determinism log: one line per run (hash of its trace)
	Replayed    *Result        `json:"replayed,omitempty"`
	Crashed     bool           `json:"crashed,omitempty"` // set by the driver: the worker process died in the system under test
	FirstSeed   uint64         `json:"first_seed"`
	LastIndex   int            `json:"last_index"`
}

// RunFunc executes one run from a tape. idx is the run's global index (the engine may
// use it to pick corpus entries in order).
type RunFunc func(cfg Config, idx int, tp *tape.Tape) Result

// watchdog kills the process when one run takes absurdly long in wall-clock time (a bubble
// whose goroutines wait for a sync.Mutex never becomes quiescent): it dumps every
// goroutine so that the driver can tell a deadlock of the system under test from a hang
// of the harness.
func watchdog(idx int, seed uint64) (stop func()) {
	limit := time.Duration(envInt("VSIM_RUN_WATCHDOG_S", 180)) * time.Second
	done := make(chan struct{})
	go func() {
		select {
		case <-done:
		case <-time.After(limit):
			buf := make([]byte, 8<<20)
			n := runtime.Stack(buf, true)
			fmt.Fprintf(os.Stderr, "VSIM-WATCHDOG idx=%d seed=%d: run exceeded %v of wall-clock time\n%s\n", idx, seed, limit, buf[:n])
			os.Exit(4)
		}
	}()
	return func() { close(done) }
}

// RunSeed derives the seed of run idx.
func RunSeed(master uint64, idx int) uint64 { return tape.Mix(master, uint64(idx)+1) }

var (
	traceStamp = regexp.MustCompile(`^\s*[0-9]+\.[0-9]+s `)
	traceAdv   = regexp.MustCompile(`advance time by \S+ \(of (\S+): a goroutine reached a park point\)`)
)

// NormTrace is what the determinism check compares: the trace without simulated time
// stamps and without the amount of an advance that was cut short. How far a cut-short
// advance got depends on when a goroutine of a library (net/http's shutdown poll, with
// jitter drawn from a random stream whose position depends on sync.Pool hits) reached its
// next scheduling point; the order of events is what must be reproducible.
func NormTrace(t []string) []string {
	out := make([]string, len(t))
	for i, l := range t {
		l = traceStamp.ReplaceAllString(l, "")
		l = traceAdv.ReplaceAllString(l, "advance time (of $1, cut short)")
		out[i] = l
	}
	return out
}

func HashStrings(ss []string) uint64 {
	h := fnv.New64a()
	for _, s := range ss {
		h.Write([]byte(s))
		h.Write([]byte{0})
	}
	return h.Sum64()
}

// Main is called from the engine's TestEngine. It never calls t.Fatal for violations:
// those travel through the summary; the driver decides.
func Main(cfg Config, run RunFunc) {
	sum := Summary{Worker: cfg.Worker, Faults: map[string]int{}, Probes: map[string]int{}, Others: map[string]int{}}
	defer func() {
		if cfg.Out == "" {
			b, _ := json.MarshalIndent(sum, "", " ")
			fmt.Println(string(b))
			return
		}
		b, err := json.Marshal(sum)
		if err != nil {
			b = []byte(fmt.Sprintf(`{"harness_error":%q}`, err.Error()))
		}
		tmp := cfg.Out + ".tmp"
		os.WriteFile(tmp, b, 0644)
		os.Rename(tmp, cfg.Out)
	}()
	defer func() {
		if p := recover(); p != nil {
			sum.HarnessErr = fmt.Sprintf("panic in harness: %v\n%s", p, debug.Stack())
		}
	}()

	if cfg.Replay != "" {
		b, err := os.ReadFile(cfg.Replay)
		if err != nil {
			sum.HarnessErr = err.Error()
			return
		}
		var rf ReplayFile
		if err := json.Unmarshal(b, &rf); err != nil {
			sum.HarnessErr = "bad replay file: " + err.Error()
			return
		}
		for k, v := range rf.Extra {
			if _, ok := cfg.Extra[k]; !ok {
				cfg.Extra[k] = v
			}
		}
		tp := tape.Replay(rf.Seed, rf.Tape)
		if rf.FromSeed {
			tp = tape.New(rf.Seed) // no tape was saved (the process crashed): regenerate it
		}
		fmt.Fprintf(os.Stderr, "VSIM-RUN idx=%d seed=%d\n", rf.RunIndex, rf.Seed)
		res := run(cfg, rf.RunIndex, tp)
		sum.Runs = 1
		sum.Replayed = &res
		if res.HarnessError != "" {
			sum.HarnessErr = res.HarnessError
		}
		if res.Oracle != "" {
			sum.Failures = append(sum.Failures, Failure{RunIndex: rf.RunIndex, Seed: rf.Seed, Result: res, Tape: tp.Values(), Labels: labels(tp)})
		}
		sum.Log = append(sum.Log, fmt.Sprintf("%d %016x %s", rf.RunIndex, HashStrings(NormTrace(res.Trace)), res.Oracle))
		return
	}

	start := time.Now()
	seen := map[uint64]struct{}{}
	wantLog := os.Getenv("VSIM_DETLOG") == "1"
	detN := envInt("VSIM_DETN", 0) // only runs with index < detN are logged
	var indices []int
	if v := os.Getenv("VSIM_INDICES"); v != "" {
		for _, f := range strings.Split(v, ",") {
			if x, err := strconv.Atoi(f); err == nil {
				indices = append(indices, x)
			}
		}
	}
	n := 0
	first := cfg.Worker
	if after := envInt("VSIM_START_AFTER", -1); after >= 0 {
		first = after + cfg.Workers // restarted behind a run that killed the previous process
	}
	for idx := first; n < cfg.MaxRuns; idx += cfg.Workers {
		if indices != nil {
			if n >= len(indices) {
				break
			}
			idx = indices[n]
		} else if n > 0 && time.Since(start) > cfg.Budget {
			break
		}
		seed := RunSeed(cfg.Master, idx)
		if n == 0 {
			sum.FirstSeed = seed
		}
		tp := tape.New(seed)
		// If the system under test crashes the whole process (a panic in one of its own
		// goroutines cannot be recovered from outside), this line tells the driver which
		// run it was.
		fmt.Fprintf(os.Stderr, "VSIM-RUN idx=%d seed=%d\n", idx, seed)
		stopWatch := watchdog(idx, seed)
		res := run(cfg, idx, tp)
		stopWatch()
		n++
		sum.LastIndex = idx
		sum.Runs++
		if res.Evals > 0 {
			sum.Evals += res.Evals
		} else {
			sum.Evals++
		}
		for _, h := range res.ExtraHashes {
			seen[h] = struct{}{}
		}
		sum.Steps += res.Steps
		sum.SimSeconds += res.SimSeconds
		for k, v := range res.Faults {
			sum.Faults[k] += v
		}
		for k, v := range res.Probes {
			sum.Probes[k] += v
		}
		if res.Nontrivial {
			sum.Nontrivial++
			seen[res.SchedHash] = struct{}{}
		}
		if td := os.Getenv("VSIM_TRACEDIR"); td != "" {
			os.WriteFile(fmt.Sprintf("%s/trace-%d.txt", td, idx), []byte(strings.Join(res.Trace, "\n")+"\n"), 0644)
		}
		if wantLog && idx < detN {
			if res.DetKey != "" {
				sum.Log = append(sum.Log, fmt.Sprintf("%d results:%016x %s", idx, HashStrings([]string{res.DetKey}), res.Oracle))
			} else {
				sum.Log = append(sum.Log, fmt.Sprintf("%d %016x %016x %s", idx, res.SchedHash, HashStrings(NormTrace(res.Trace)), res.Oracle))
			}
		}
		if res.Sample != nil && len(sum.Samples) < 3 {
			sum.Samples = append(sum.Samples, res.Sample)
		}
		if res.HarnessError != "" {
			sum.HarnessErr = fmt.Sprintf("run %d seed %d: %s", idx, seed, res.HarnessError)
			break
		}
		if res.Oracle != "" {
			if cfg.Property != "" && res.Property != cfg.Property {
				sum.Others[res.Property+"/"+res.Oracle]++
				continue
			}
			sum.Failures = append(sum.Failures, Failure{RunIndex: idx, Seed: seed, Result: res, Tape: tp.Values(), Labels: labels(tp)})
			if len(sum.Failures) >= 3 {
				break
			}
		}
	}
	sum.WallSeconds = time.Since(start).Seconds()
	for h := range seen {
		sum.Hashes = append(sum.Hashes, h)
	}
	sort.Slice(sum.Hashes, func(i, j int) bool { return sum.Hashes[i] < sum.Hashes[j] })
}

func labels(tp *tape.Tape) []string {
	if len(tp.Rec) > 4000 {
		return nil
	}
	out := make([]string, len(tp.Rec))
	for i, e := range tp.Rec {
		out[i] = e.Label
	}
	return out
}
