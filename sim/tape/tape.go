// Package tape is the single source of choices of a simulated run.
//
// In record mode every Draw comes from a splitmix64 PRNG seeded by the run seed and is
// appended to the tape; in replay mode values come from a recorded list. When the list
// is exhausted, or a value is out of range, the draw yields 0 — by convention the most
// benign alternative — so every integer list is a valid run, which makes shrinking safe.
package tape

type Entry struct {
	Label string `json:"l"`
	N     int    `json:"n"`
	V     int    `json:"v"`
}

type Tape struct {
	seed    uint64
	state   uint64
	replay  []int
	replayI int
	isRep   bool
	Rec     []Entry
	// Lean, when set, stops recording labels (values are still recorded).
	Lean bool
}

func SplitMix(x *uint64) uint64 {
	*x += 0x9e3779b97f4a7c15
	z := *x
	z = (z ^ (z >> 30)) * 0xbf58476d1ce4e5b9
	z = (z ^ (z >> 27)) * 0x94d049bb133111eb
	return z ^ (z >> 31)
}

// Mix derives an independent seed from (a, b).
func Mix(a, b uint64) uint64 {
	x := a ^ (b * 0x9e3779b97f4a7c15)
	SplitMix(&x)
	return SplitMix(&x)
}

func New(seed uint64) *Tape { return &Tape{seed: seed, state: seed} }

func Replay(seed uint64, vals []int) *Tape {
	return &Tape{seed: seed, state: seed, replay: vals, isRep: true}
}

func (t *Tape) Seed() uint64 { return t.seed }

// Draw returns a value in [0, n). n <= 1 draws nothing and returns 0.
func (t *Tape) Draw(n int, label string) int {
	if n <= 1 {
		return 0
	}
	var v int
	if t.isRep {
		if t.replayI < len(t.replay) {
			v = t.replay[t.replayI]
			t.replayI++
			if v < 0 || v >= n {
				v = 0
			}
		}
	} else {
		v = int(SplitMix(&t.state) % uint64(n))
	}
	if t.Lean {
		label = ""
	}
	t.Rec = append(t.Rec, Entry{label, n, v})
	return v
}

// Chance returns true with probability num/den; 0 (false) is the benign value.
func (t *Tape) Chance(num, den int, label string) bool {
	if num <= 0 {
		return false
	}
	// value 0 must map to "false": true iff v >= den-num
	return t.Draw(den, label) >= den-num
}

// Weighted picks an index with the given integer weights (index 0 should be benign).
func (t *Tape) Weighted(w []int, label string) int {
	tot := 0
	for _, x := range w {
		tot += x
	}
	if tot <= 0 {
		return 0
	}
	v := t.Draw(tot, label)
	for i, x := range w {
		if v < x {
			return i
		}
		v -= x
	}
	return len(w) - 1
}

func (t *Tape) Values() []int {
	out := make([]int, len(t.Rec))
	for i, e := range t.Rec {
		out[i] = e.V
	}
	return out
}

func (t *Tape) Len() int { return len(t.Rec) }
