// Package watchsim runs the real `d2 --watch` command (flag parsing, watcher, compile,
// render, HTTP server, WebSocket handlers) inside a synctest bubble against a simulated
// editor, inotify, network, browsers and operator, with every interleaving chosen by the
// tape. It decides C44 (latest result reaches every client, in order) and C45 (shutdown
// waits for every client handler and admits none afterwards).
package watchsim

import (
	"bufio"
	"context"
	"encoding/base64"
	"encoding/json"
	"fmt"
	"io"
	"net"
	"net/http"
	"os"
	"path/filepath"
	"reflect"
	"regexp"
	"runtime"
	"runtime/debug"
	"strings"
	"sync"
	"sync/atomic"
	"syscall"
	"testing"
	"testing/synctest"
	"time"

	"github.com/coder/websocket"
	"github.com/fsnotify/fsnotify"

	"oss.terrastruct.com/d2/lib/verifhook"

	"verifsim/cli"
	"verifsim/harness"
	"verifsim/sched"
	"verifsim/simfs"
	"verifsim/simnet"
	"verifsim/simnotify"
	"verifsim/stubplugin"
	"verifsim/tape"
)

type swarm struct {
	profile     string // "C44" | "C45"
	clients     int
	edits       int
	imports     bool
	dagre       bool
	fStall      bool
	fClose      bool
	fDrop       bool
	fPartial    bool
	fSlowHS     bool
	fPlainGet   bool
	holdHS      bool
	holdAdmit   bool
	stretch     int // 0 none, 1 compile window, 2 publish window, 3 both
	gateEditor  bool
	fDup        bool
	fDropW      bool
	fAddFail    bool
	lateJoin    bool
	extraStep   int
	nested      bool // b.d2 imports c.d2
	detach      bool // saves of index.d2 may drop / restore the import of b.d2
	navigate    bool // multi-board input and a browser tab that navigates between boards (page GETs)
	fFsErr      bool // the fsnotify Errors channel delivers errors
	checkpoint  bool // after some saves the editor pauses and the end-of-run conditions are checked
	slowWL      bool // "slow node": one client's write loop does not get the CPU for a while
	deafClient  bool // a browser stops reading for 8-68 simulated seconds, then shutdown is requested
	holdThrough bool // holdAdmit/holdHS: the stalled handler stays stalled until close() has run as far as it gets without it
	keepMtime   bool // some saves leave the file's modification time as it was (cp -p, rsync -t, a coarse clock)
}

type frame struct {
	Seq   int
	At    time.Duration
	Main  int // -1: not present
	Imp   int
	Imp2  int
	Board int
	Err   string
	Bytes int
	Hash  uint64
}

// vers is what a rendered SVG tells about the sources it was compiled from: the versions of
// index.d2 (v), b.d2 (w), c.d2 (x) and which board was rendered; -1 = not present.
type vers struct{ Main, Imp, Imp2, Board int }

func (v vers) String() string {
	return fmt.Sprintf("v%04d/w%04d/x%04d/board%d", v.Main, v.Imp, v.Imp2, v.Board)
}

func resHash(svg, errs string) uint64 {
	return harness.HashStrings([]string{svg, errs})
}

type client struct {
	id      int
	name    string
	conn    net.Conn
	ws      *websocket.Conn
	frames  []frame
	state   string // new, refused, rejected, handshake-dropped, open, closed-by-sim, dropped-by-sim, ended
	endErr  string
	parkAt  time.Duration
	parked  bool
	maxPark time.Duration
	stalls  int
}

type world struct {
	sim *sched.Sim
	res *harness.Result
	tp  *tape.Tape
	cfg swarm
	dir string

	kernel *simnotify.Kernel
	lis    *simnet.Listener
	sigs   chan os.Signal

	mu        sync.Mutex
	gidName   map[uint64]string
	lastMtime map[string]time.Time // editor only: the modification time each source has now
	clients   []*client
	inCompile atomic.Bool
	quiet     atomic.Bool
	settling  atomic.Bool

	mainVer, impVer  int
	imp2Ver          int
	attached         bool // the content of index.d2 on disk (after the save in progress) imports b.d2
	navBoard         int  // board the browser tab navigated to last (0 = root)
	navUncertain     atomic.Bool
	skipC44          bool
	navsDone         atomic.Bool
	wantCheckpoint   atomic.Bool
	stored           []uint64 // hash of every result the compile loop stored, in order
	editsDone        atomic.Bool
	closeBegun       atomic.Bool
	hsWeight         int
	admitWeight      map[string]int
	baseWeight       map[string]int
	baseAdvances     []time.Duration
	lastInflightStep int
	checkpointAt     int
	midRun           bool
	saveInProgress   atomic.Int32
	publishing       atomic.Bool
	heldAdmit        bool
	signalled        atomic.Bool
	signalAt         time.Duration
	base             time.Time
}

func (w *world) fault(kind string) {
	w.mu.Lock()
	w.res.Fault(kind)
	w.mu.Unlock()
}

func (w *world) probe(kind string) {
	w.mu.Lock()
	w.res.Probe(kind)
	w.mu.Unlock()
}

func wt(on bool, n int) int {
	if on {
		return n
	}
	return 0
}

var (
	classRe = regexp.MustCompile(`class="([A-Za-z0-9+/]+=*)"`)
	verRe   = regexp.MustCompile(`^([vwx])(\d{4})$`)
	boardRe = regexp.MustCompile(`^bb(\d{2})$`)
)

// versions extracts the (main, import) content versions a rendered SVG carries. The
// objects have empty labels (no text means no font subsetting, which would dominate the
// cost of a compile); d2 puts the base64 of an object's id into its class attribute.
func versions(svg string) vers {
	v := vers{-1, -1, -1, -1}
	for _, c := range classRe.FindAllStringSubmatch(svg, -1) {
		id, err := base64.StdEncoding.DecodeString(c[1])
		if err != nil {
			continue
		}
		if g := boardRe.FindStringSubmatch(string(id)); g != nil {
			n := 0
			fmt.Sscanf(g[1], "%d", &n)
			if n > v.Board {
				v.Board = n
			}
			continue
		}
		g := verRe.FindStringSubmatch(string(id))
		if g == nil {
			continue
		}
		n := 0
		fmt.Sscanf(g[2], "%d", &n)
		switch {
		case g[1] == "v" && n > v.Main:
			v.Main = n
		case g[1] == "w" && n > v.Imp:
			v.Imp = n
		case g[1] == "x" && n > v.Imp2:
			v.Imp2 = n
		}
	}
	return v
}

func resFields(arg any) (svg, errs string) {
	v := reflect.ValueOf(arg)
	if v.Kind() == reflect.Pointer && !v.IsNil() {
		v = v.Elem()
	}
	if v.Kind() != reflect.Struct {
		return "", ""
	}
	if f := v.FieldByName("SVG"); f.IsValid() && f.Kind() == reflect.String {
		svg = f.String()
	}
	if f := v.FieldByName("Err"); f.IsValid() && f.Kind() == reflect.String {
		errs = f.String()
	}
	return
}

// ---- hooks

type verEv struct {
	Main, Imp int
	Err       bool
	Who       string
	Imp2      int
	Board     int
	Hash      uint64
}

func (e verEv) vers() vers { return vers{e.Main, e.Imp, e.Imp2, e.Board} }

func (w *world) yield(point string, arg any) {
	key := point
	switch a := arg.(type) {
	case nil:
	case string:
		key += ":" + a
	default:
		w.mu.Lock()
		n := w.gidName[runtime.VerifGID()]
		w.mu.Unlock()
		if n == "" {
			n = "g" + sched.GID()
		}
		key += ":" + n
	}
	w.sim.Yield(key)
}

func (w *world) trace(ev string, arg any) {
	var out any
	switch ev {
	case "close.begin":
		w.closeBegun.Store(true)
	case "compile.begin":
		w.inCompile.Store(true)
	case "compile.end":
		w.inCompile.Store(false)
		w.publishing.Store(true)
		if b, ok := arg.([]byte); ok {
			v := versions(string(b))
			out = verEv{Main: v.Main, Imp: v.Imp, Imp2: v.Imp2, Board: v.Board}
		}
	case "bcast.notify":
		w.publishing.Store(false)
		out = arg
	case "ws.handler.start":
		if s, ok := arg.(string); ok {
			w.mu.Lock()
			w.gidName[runtime.VerifGID()] = s
			w.mu.Unlock()
		}
		out = arg
	case "bcast.stored", "wl.write":
		svg, errs := resFields(arg)
		v := versions(svg)
		e := verEv{Main: v.Main, Imp: v.Imp, Imp2: v.Imp2, Board: v.Board, Err: errs != "", Hash: resHash(svg, errs)}
		if ev == "bcast.stored" {
			w.mu.Lock()
			w.stored = append(w.stored, e.Hash)
			w.mu.Unlock()
		}
		if ev == "wl.write" {
			w.mu.Lock()
			e.Who = w.gidName[runtime.VerifGID()]
			w.mu.Unlock()
		}
		out = e
	default:
		out = arg
	}
	w.sim.Emit(ev, out)
}

// ---- simulated file system: scheduling points when the compiler opens a source

func (w *world) fsHandler(op simfs.Op) simfs.Decision {
	if w.quiet.Load() || !w.inCompile.Load() {
		return simfs.Decision{}
	}
	if op.Name == "openat" && strings.HasSuffix(op.Path, ".d2") && op.Flags&syscall.O_ACCMODE == syscall.O_RDONLY {
		w.sim.Yield("fs:open:" + filepath.Base(op.Path))
	}
	return simfs.Decision{}
}

// ---- editor

// Content of the three sources. Every object has a fixed-width id carrying the version of
// the file it was written in, so a torn prefix never looks like an older version.
// index.d2 (v) optionally imports b.d2 (w), which optionally imports c.d2 (x); with
// navigation index.d2 has two layers, each showing the same versions plus a board marker.
func (w *world) mainContent(ver int, attached bool) string {
	imp := ""
	if attached {
		imp = "...@b\n"
	}
	s := fmt.Sprintf("v%04d: \"\"\n", ver) + imp
	if w.cfg.navigate {
		s += "bb00: \"\"\nlayers: {\n"
		for b := 1; b <= 2; b++ {
			s += fmt.Sprintf("  l%d: {\n    v%04d: \"\"\n    bb%02d: \"\"\n", b, ver, b)
			if attached {
				s += "    " + imp
			}
			s += "  }\n"
		}
		s += "}\n"
	}
	return s
}

func (w *world) impContent(ver int) string {
	s := fmt.Sprintf("w%04d: \"\"\n", ver)
	if w.cfg.nested {
		s += "...@c\n"
	}
	return s
}

func imp2Content(ver int) string { return fmt.Sprintf("x%04d: \"\"\n", ver) }

// want is what a compile of the sources as they are on disk now must show.
func (w *world) want() vers {
	v := vers{w.mainVer, -1, -1, -1}
	if w.cfg.imports && w.attached {
		v.Imp = w.impVer
		if w.cfg.nested {
			v.Imp2 = w.imp2Ver
		}
	}
	if w.cfg.navigate {
		w.mu.Lock()
		v.Board = w.navBoard
		w.mu.Unlock()
	}
	return v
}

func (w *world) mtime(ver, step int) time.Time {
	return w.base.Add(time.Duration(ver)*time.Minute + time.Duration(step)*time.Second)
}

func (w *world) harnessIO(f func()) {
	w.quiet.Store(true)
	defer w.quiet.Store(false)
	f()
}

func (w *world) editor() {
	defer w.editsDone.Store(true)
	for e := 0; e < w.cfg.edits; e++ {
		// (Every draw of an actor comes after its park point: only the released goroutine
		// may touch the tape.)
		style := w.sim.Park("editor:edit", []sched.Option{{"truncate-write", 4}, {"rename-over", 3}, {"rename-away-create", 2}})
		which := 0 // 0 index.d2, 1 b.d2, 2 c.d2
		if w.cfg.imports && w.tp.Chance(2, 5, "edit.import") {
			which = 1
			if w.cfg.nested && w.tp.Chance(1, 2, "edit.import2") {
				which = 2
			}
		}
		var ver int
		var path string
		var data []byte
		switch which {
		case 0:
			if w.cfg.detach && w.tp.Chance(1, 3, "edit.detach") {
				w.attached = !w.attached
				w.sim.Logf("editor: index.d2 imports b.d2: %v", w.attached)
			}
			w.mainVer++
			ver = w.mainVer
			path = filepath.Join(w.dir, "index.d2")
			data = []byte(w.mainContent(ver, w.attached))
		case 1:
			w.impVer++
			ver = w.impVer
			path = filepath.Join(w.dir, "b.d2")
			data = []byte(w.impContent(ver))
		case 2:
			w.imp2Ver++
			ver = w.imp2Ver
			path = filepath.Join(w.dir, "c.d2")
			data = []byte(imp2Content(ver))
		}
		// The modification time of a save: a simulated clock value of its own per version
		// and step, or (keepMtime) the time the file already had.
		mtime := func(step int) time.Time { return w.mtime(ver, step) }
		if w.cfg.keepMtime && w.tp.Chance(1, 2, "edit.keepmtime") {
			if old, ok := w.lastMtime[path]; ok {
				mtime = func(int) time.Time { return old }
				w.res.Probe("save_leaves_the_modification_time_unchanged")
			}
		}
		w.lastMtime[path] = mtime(3)
		w.saveInProgress.Store(1)
		w.sim.Logf("editor: save %s version %d (%s)", filepath.Base(path), ver, []string{"truncate-write", "rename-over", "rename-away-create"}[style])
		switch style {
		case 0:
			ino := simnotify.Ino(path)
			cut := 1 + w.tp.Draw(len(data)-1, "edit.cut")
			w.harnessIO(func() {
				f, err := os.OpenFile(path, os.O_WRONLY|os.O_TRUNC|os.O_CREATE, 0644)
				if err == nil {
					f.Close()
				}
				os.Chtimes(path, mtime(1), mtime(1))
			})
			w.kernel.Modified(ino)
			if w.tp.Chance(1, 2, "edit.pause") {
				w.sim.Yield("editor:step")
			}
			w.harnessIO(func() {
				f, _ := os.OpenFile(path, os.O_WRONLY|os.O_APPEND, 0644)
				f.Write(data[:cut])
				f.Close()
				os.Chtimes(path, mtime(2), mtime(2))
			})
			w.kernel.Modified(ino)
			if w.tp.Chance(1, 2, "edit.pause") {
				w.sim.Yield("editor:step")
			}
			w.harnessIO(func() {
				f, _ := os.OpenFile(path, os.O_WRONLY|os.O_APPEND, 0644)
				f.Write(data[cut:])
				f.Close()
				os.Chtimes(path, mtime(3), mtime(3))
			})
			w.kernel.Modified(ino)
			if w.tp.Chance(1, 2, "edit.chmod") {
				w.kernel.Attrib(ino)
			}
		case 1:
			tmp := path + ".new"
			old := simnotify.Ino(path)
			w.harnessIO(func() {
				os.WriteFile(tmp, data, 0644)
				os.Chtimes(tmp, mtime(3), mtime(3))
			})
			if w.tp.Chance(1, 2, "edit.pause") {
				w.sim.Yield("editor:step")
			}
			w.harnessIO(func() { os.Rename(tmp, path) })
			w.kernel.Unlinked(old)
		case 2:
			old := simnotify.Ino(path)
			w.harnessIO(func() { os.Rename(path, path+".bak~") })
			w.kernel.Moved(old)
			w.sim.Yield("editor:step") // the file is missing here
			w.harnessIO(func() {
				os.WriteFile(path, data, 0644)
				os.Chtimes(path, mtime(3), mtime(3))
			})
		}
		w.saveInProgress.Store(0)
		w.sim.Logf("editor: version %d of %s is on disk", ver, filepath.Base(path))
		if w.cfg.checkpoint && w.cfg.profile == "C44" && e < w.cfg.edits-1 && w.tp.Chance(1, 3, "edit.checkpoint") {
			// The user stops typing for a while after this save: every save may be the
			// last one for a minute, so a lost update shows even when a later save would
			// have repaired it.
			w.wantCheckpoint.Store(true)
		}
	}
}

// ---- browser

func (w *world) decode(c *client, data []byte) {
	var m struct {
		SVG string `json:"svg"`
		Err string `json:"err"`
	}
	f := frame{Main: -1, Imp: -1, Imp2: -1, Board: -1, Bytes: len(data), At: w.sim.Now()}
	if err := json.Unmarshal(data, &m); err != nil {
		f.Err = "undecodable frame: " + err.Error()
	} else {
		v := versions(m.SVG)
		f.Main, f.Imp, f.Imp2, f.Board = v.Main, v.Imp, v.Imp2, v.Board
		f.Err = m.Err
		f.Hash = resHash(m.SVG, m.Err)
	}
	w.mu.Lock()
	c.frames = append(c.frames, f)
	w.mu.Unlock()
	w.sim.Emit("client.frame", verEv{Main: f.Main, Imp: f.Imp, Imp2: f.Imp2, Board: f.Board, Err: f.Err != "", Who: c.name, Hash: f.Hash})
}

func (w *world) setState(c *client, s, err string) {
	w.mu.Lock()
	c.state = s
	c.endErr = err
	w.mu.Unlock()
	// The error text is not part of the trace: whether a client sees the server's close
	// frame or a bare EOF is decided inside the websocket library between two server
	// goroutines the simulator does not schedule.
	w.sim.Logf("%s: %s", c.name, s)
}

func (w *world) park(c *client, key string, opts []sched.Option) int {
	w.mu.Lock()
	c.parked = true
	c.parkAt = w.sim.Now()
	w.mu.Unlock()
	r := w.sim.Park(key, opts)
	w.mu.Lock()
	c.parked = false
	if d := w.sim.Now() - c.parkAt; d > c.maxPark {
		c.maxPark = d
	}
	w.mu.Unlock()
	return r
}

func (w *world) browser(c *client) {
	w.park(c, "browser:"+c.name+":connect", sched.Go)
	conn, err := w.lis.Dial(c.name)
	if err != nil {
		w.setState(c, "refused", err.Error())
		return
	}
	c.conn = conn
	switch w.park(c, "browser:"+c.name+":handshake", []sched.Option{{"full", 10}, {"partial-then-drop", wt(w.cfg.fPartial && !w.settling.Load(), 1)},
		{"plain-get", wt(w.cfg.fPlainGet && !w.settling.Load(), 2)}}) {
	case 1:
		w.fault("client_dropped_mid_handshake")
		conn.SetWriteDeadline(time.Now().Add(time.Second))
		conn.Write([]byte("GET /watch HTTP/1.1\r\nHost: sim\r\nUpgrade: webs"))
		conn.Close()
		w.setState(c, "handshake-dropped", "")
		return
	case 2:
		// Something that is not a WebSocket client asks for /watch (a curl, a crawler, a
		// browser tab opened on the URL): the upgrade is refused.
		w.fault("client_plain_http_get_of_watch")
		variants := []string{
			"GET /watch HTTP/1.1\r\nHost: sim\r\n\r\n",
			"GET /watch HTTP/1.1\r\nHost: sim\r\nConnection: Upgrade\r\nUpgrade: websocket\r\nSec-WebSocket-Version: 8\r\nSec-WebSocket-Key: AAAAAAAAAAAAAAAAAAAAAA==\r\n\r\n",
			"GET /watch HTTP/1.1\r\nHost: sim\r\nOrigin: http://evil.example\r\nConnection: Upgrade\r\nUpgrade: websocket\r\nSec-WebSocket-Version: 13\r\nSec-WebSocket-Key: AAAAAAAAAAAAAAAAAAAAAA==\r\n\r\n",
		}
		req := variants[w.tp.Draw(len(variants), "client.plainget")]
		if _, err := conn.Write([]byte(req)); err != nil {
			conn.Close()
			w.setState(c, "refused", err.Error())
			return
		}
		resp, err := http.ReadResponse(bufio.NewReader(conn), nil)
		st := "plainget-noresponse"
		if err == nil {
			st = fmt.Sprintf("plainget-%d", resp.StatusCode)
			resp.Body.Close()
		}
		conn.Close()
		w.setState(c, st, "")
		return
	}
	ctx := context.Background()
	dialled := false
	// A slow browser: it may sit on its upgrade request before sending it, and on the
	// server's 101 response before reading it (the server is then blocked inside
	// websocket.Accept, between admission and the start of the client handler).
	gate := func(class string) func() {
		return func() {
			for w.park(c, class+":"+c.name, []sched.Option{{"go", 8}, {"stall", wt(w.cfg.fSlowHS && !w.settling.Load(), 4)}}) == 1 {
				w.fault("client_slow_handshake")
			}
		}
	}
	gc := &gatedConn{Conn: conn, beforeWrite: gate("hs-send"), midWrite: gate("hs-mid"), beforeRead: gate("hs-await")}
	hc := &http.Client{Transport: &http.Transport{
		DialContext: func(context.Context, string, string) (net.Conn, error) {
			if dialled {
				return nil, fmt.Errorf("simulated browser does not reconnect")
			}
			dialled = true
			return gc, nil
		},
		DisableKeepAlives: true,
	}}
	ws, resp, err := websocket.Dial(ctx, "http://sim/watch", &websocket.DialOptions{HTTPClient: hc})
	if err != nil {
		st := "rejected"
		if resp != nil {
			st = fmt.Sprintf("rejected-%d", resp.StatusCode)
		}
		// The handshake failed (a refusal, or — when the upgrade response was lost to a
		// server-side deadline — a ping, a close frame or a result where the response should
		// have been; which of them is decided between goroutines inside the websocket
		// library). What the browser does about it, closing the connection, is a decision
		// of its own: by then every server goroutine is blocked on the pipe or done, so the
		// close never races with a write in progress. The reads inside the handshake are
		// not scheduling points: how many of them a failing handshake needs depends on
		// that library-internal order.
		w.park(c, "hs-fail:"+c.name, sched.Go)
		conn.Close()
		w.setState(c, st, err.Error())
		return
	}
	gc.established.Store(true)
	ws.SetReadLimit(-1)
	w.mu.Lock()
	c.ws = ws
	w.mu.Unlock()
	defer ws.CloseNow()
	w.setState(c, "open", "")
	for {
		opts := []sched.Option{{"read", 12}, {"stall", wt(w.cfg.fStall && !w.settling.Load(), 2)},
			{"close", wt(w.cfg.fClose && !w.settling.Load(), 1)}, {"drop", wt(w.cfg.fDrop && !w.settling.Load(), 1)}}
		switch w.park(c, "browser:"+c.name, opts) {
		case 0:
			_, data, err := ws.Read(ctx)
			if err != nil {
				w.setState(c, "ended", err.Error())
				conn.Close()
				return
			}
			w.decode(c, data)
		case 1:
			w.mu.Lock()
			c.stalls++
			w.mu.Unlock()
			w.fault("client_stalled")
		case 2:
			w.fault("client_closed")
			// The tab is closed: the connection goes away at once. (A graceful close
			// handshake is a conversation between two library goroutines on either side
			// that the simulator does not schedule; who notices whom first only changes
			// whether somebody sits out a 5 s timeout, and made runs irreproducible.)
			w.setState(c, "closed-by-sim", "")
			ws.CloseNow()
			conn.Close()
			return
		case 3:
			w.fault("client_dropped")
			w.setState(c, "dropped-by-sim", "")
			conn.Close()
			return
		}
	}
}

// navigator is a browser tab that follows links between boards: every navigation is a page
// GET, which makes the server switch the board it renders and request a compile. handleRoot
// takes the mutex the compile loop holds across a compile; since d2's mutexes are simulated
// (sched.MutexSim) a GET may arrive during a compile and waits for it.
func (w *world) navigator(n int) {
	defer w.navsDone.Store(true)
	for i := 0; i < n; i++ {
		b := w.sim.Park("nav:get", []sched.Option{{"root", 2}, {"l1", 3}, {"l2", 3}})
		path := []string{"/", "/layers/l1", "/layers/l2.svg"}[b]
		conn, err := w.lis.Dial("nav")
		if err != nil {
			w.sim.Logf("nav: connection refused")
			return
		}
		conn.SetDeadline(time.Now().Add(2 * time.Minute))
		// Once the request is written in full the server has it: the handler runs (it
		// switches the board before it does anything that can wait), whatever becomes of the
		// response afterwards (the server's write timeout may expire while the simulator
		// holds the handler at its scheduling point).
		ok := false
		if _, err := conn.Write([]byte("GET " + path + " HTTP/1.1\r\nHost: sim\r\nConnection: close\r\n\r\n")); err == nil {
			w.mu.Lock()
			w.navBoard = b
			w.mu.Unlock()
			w.probe("page_navigations")
			if resp, err := http.ReadResponse(bufio.NewReader(conn), nil); err == nil {
				io.Copy(io.Discard, resp.Body)
				resp.Body.Close()
				ok = resp.StatusCode == 200
			} else {
				// No answer within the tab's two minutes (the simulator kept the handler
				// from the CPU or from a mutex): the handler may still run, after handlers
				// of later navigations - requests on different connections are not
				// ordered. Which board the server ends up rendering is open from here on.
				w.navUncertain.Store(true)
				w.probe("navigation_left_unanswered_board_no_longer_checked")
			}
		}
		conn.Close()
		w.sim.Logf("nav: GET %s ok=%v", path, ok)
	}
}

// gatedConn gives the simulator three points inside the browser's half of the upgrade
// handshake: before the request is sent, in the middle of the request, and before the
// server's response is read.
type gatedConn struct {
	net.Conn
	beforeWrite, midWrite, beforeRead func()

	wOnce, rOnce sync.Once
	established  atomic.Bool
}

func (g *gatedConn) Write(p []byte) (n int, err error) {
	first := false
	g.wOnce.Do(func() { first = true })
	if !first || len(p) < 2 {
		return g.Conn.Write(p)
	}
	g.beforeWrite()
	n, err = g.Conn.Write(p[:len(p)/2])
	if err != nil {
		return n, err
	}
	g.midWrite()
	m, err := g.Conn.Write(p[len(p)/2:])
	return n + m, err
}

// Read: the first read of the browser (the wait for the server's response) is a scheduling
// decision; see the comment at "hs-fail" for why the later ones are not.
func (g *gatedConn) Read(p []byte) (int, error) {
	first := false
	g.rOnce.Do(func() { first = true })
	if first {
		g.beforeRead()
	}
	return g.Conn.Read(p)
}

// Close: when the HTTP client gives up on a handshake it closes the connection itself, from
// one of its own goroutines and under one of its own mutexes (no place to park). Until the
// handshake is over that close is held back: the connection really closes when the
// simulator releases the browser from "hs-fail".
func (g *gatedConn) Close() error {
	if !g.established.Load() {
		return nil
	}
	return g.Conn.Close()
}

// ---- the run

var sandboxSeq int

type sample struct {
	Profile string   `json:"profile"`
	Config  string   `json:"config"`
	Steps   int      `json:"steps"`
	SimTime string   `json:"simulated_time"`
	Clients []string `json:"clients"`
	Tail    []string `json:"trace_tail"`
}

func Run(t *testing.T, cfg harness.Config, idx int, tp *tape.Tape) (res harness.Result) {
	stubplugin.Register()
	sandboxSeq++
	dir := filepath.Join(os.TempDir(), fmt.Sprintf("verifsim-watch-%d-%d", os.Getpid(), sandboxSeq))
	if err := os.MkdirAll(dir, 0755); err != nil {
		res.HarnessError = err.Error()
		return
	}
	defer os.RemoveAll(dir)
	if rp, err := filepath.EvalSymlinks(dir); err == nil {
		dir = rp
	}
	func() {
		defer func() {
			if p := recover(); p != nil {
				msg := fmt.Sprint(p)
				if strings.Contains(msg, "deadlock") {
					stacks := sched.AllBubbleGoroutines()
					leak := ""
					for _, g := range stacks {
						if strings.Contains(g, "oss.terrastruct.com/d2/") {
							leak = g
							break
						}
					}
					if leak != "" {
						res.Fail("C45", "O45.4", "a goroutine of the watch server is blocked forever after the run ended (leaked handler):\n%s", leak)
					} else {
						res.HarnessError = "bubble ended with blocked goroutines that are not d2's:\n" + strings.Join(stacks, "\n\n")
					}
					return
				}
				res.HarnessError = fmt.Sprintf("panic: %v\n%s", p, debug.Stack())
			}
		}()
		synctest.Test(t, func(t *testing.T) { runInBubble(cfg, idx, tp, dir, &res) })
	}()
	return
}

func runInBubble(hcfg harness.Config, idx int, tp *tape.Tape, dir string, res *harness.Result) {
	sim := sched.New(tp)
	sim.MaxSteps = 900
	sim.Norm = func(k string) string { return strings.Replace(k, dir, "$SANDBOX", -1) }
	salt := uint64(tp.Draw(1<<30, "runtime.salt"))
	runtime.VerifSimEnable(salt + 1)
	defer runtime.VerifSimDisable()

	w := &world{sim: sim, res: res, tp: tp, dir: dir, gidName: map[uint64]string{}, base: time.Unix(1_700_000_000, 0), lastMtime: map[string]time.Time{}}
	w.cfg = swarm{
		profile:    hcfg.Property,
		clients:    1 + tp.Weighted([]int{4, 3, 2, 1, 1}, "cfg.clients"),
		edits:      tp.Weighted([]int{1, 2, 3, 3, 3, 2, 2, 1, 1, 1, 1, 1, 1}, "cfg.edits"),
		imports:    tp.Chance(1, 2, "cfg.imports"),
		dagre:      tp.Chance(1, 12, "cfg.dagre"),
		fStall:     tp.Chance(1, 3, "cfg.stall"),
		fClose:     tp.Chance(1, 2, "cfg.close"),
		fDrop:      tp.Chance(1, 2, "cfg.drop"),
		fPartial:   tp.Chance(1, 3, "cfg.partial"),
		fSlowHS:    tp.Chance(1, 2, "cfg.slowhandshake"),
		fPlainGet:  tp.Chance(1, 2, "cfg.plainget"),
		holdHS:     tp.Chance(1, 2, "cfg.holdhandshakes"),
		holdAdmit:  tp.Chance(1, 3, "cfg.holdadmit"),
		stretch:    tp.Weighted([]int{2, 3, 3, 2}, "cfg.stretch"),
		gateEditor: tp.Chance(1, 2, "cfg.gateeditor"),
		fDup:       tp.Chance(1, 2, "cfg.dup"),
		fDropW:     tp.Chance(1, 3, "cfg.dropwrite"),
		fAddFail:   tp.Chance(1, 3, "cfg.addfail"),
		lateJoin:   tp.Chance(1, 2, "cfg.latejoin"),
	}
	if w.cfg.profile != "C45" {
		w.cfg.profile = "C44"
	}
	w.cfg.extraStep = tp.Draw(40, "cfg.extrasteps")
	w.cfg.nested = w.cfg.imports && tp.Chance(1, 2, "cfg.nested")
	w.cfg.detach = w.cfg.imports && tp.Chance(1, 3, "cfg.detach")
	w.cfg.navigate = tp.Chance(1, 4, "cfg.navigate")
	w.cfg.fFsErr = tp.Chance(1, 4, "cfg.fserr")
	w.cfg.checkpoint = tp.Chance(2, 3, "cfg.checkpoint")
	w.cfg.slowWL = tp.Chance(1, 3, "cfg.slowwriteloop")
	w.cfg.deafClient = tp.Chance(1, 3, "cfg.deafclient")
	w.cfg.keepMtime = tp.Chance(1, 4, "cfg.keepmtime")
	w.cfg.holdThrough = tp.Chance(1, 2, "cfg.holdthrough")
	if w.cfg.keepMtime {
		// A change that leaves the modification time alone is visible through its events
		// only (the poll compares modification times): no event of such a run is lost.
		w.cfg.fDropW = false
	}
	w.attached = w.cfg.imports
	sim.TimeWeight = 1
	for _, cl := range []string{"req", "compile.wait", "compile.start", "compile.bcast", "bcast.res", "bcast.clients", "ws.admit", "ws.accept", "ws.register",
		"wl.getres", "wl.wait", "close", "close.cancel", "close.wait", "fs", "layout", "fsn", "kernel", "editor", "browser", "hs-send", "hs-mid", "hs-await", "hs-fail", "nav", "lk", "lw"} {
		sim.ClassWeight[cl] = 2 + tp.Draw(10, "cfg.w."+cl)
	}
	sim.ClassWeight["operator"] = 0
	w.baseAdvances = sim.Advances
	w.baseWeight = map[string]int{}
	for k, v := range sim.ClassWeight {
		w.baseWeight[k] = v
	}
	w.hsWeight = sim.ClassWeight["hs-await"]
	w.admitWeight = map[string]int{"ws.admit": sim.ClassWeight["ws.admit"], "ws.accept": sim.ClassWeight["ws.accept"]}

	// ---- world
	w.harnessIO(func() {
		os.WriteFile(filepath.Join(dir, "index.d2"), []byte(w.mainContent(0, w.attached)), 0644)
		os.Chtimes(filepath.Join(dir, "index.d2"), w.mtime(0, 3), w.mtime(0, 3))
		w.lastMtime[filepath.Join(dir, "index.d2")] = w.mtime(0, 3)
		if w.cfg.imports {
			os.WriteFile(filepath.Join(dir, "b.d2"), []byte(w.impContent(0)), 0644)
			os.Chtimes(filepath.Join(dir, "b.d2"), w.mtime(0, 3), w.mtime(0, 3))
			w.lastMtime[filepath.Join(dir, "b.d2")] = w.mtime(0, 3)
		}
		if w.cfg.nested {
			os.WriteFile(filepath.Join(dir, "c.d2"), []byte(imp2Content(0)), 0644)
			os.Chtimes(filepath.Join(dir, "c.d2"), w.mtime(0, 3), w.mtime(0, 3))
			w.lastMtime[filepath.Join(dir, "c.d2")] = w.mtime(0, 3)
		}
	})
	w.kernel = simnotify.New(sim)
	w.kernel.OnFault = w.fault
	w.kernel.DupWeight = wt(w.cfg.fDup, 1)
	w.kernel.DropWriteWeight = wt(w.cfg.fDropW, 1)
	w.kernel.AddFailWeight = wt(w.cfg.fAddFail, 1)
	w.kernel.ErrWeight = wt(w.cfg.fFsErr, 1)
	w.lis = simnet.NewListener()
	w.sigs = make(chan os.Signal, 1)

	fsnotify.SimNewBackend = w.kernel.Backend
	verifhook.YieldFn = w.yield
	verifhook.TraceFn = w.trace
	verifhook.ListenerFn = func() net.Listener { return w.lis }
	fs := &simfs.FS{Root: dir, Handler: w.fsHandler}
	simfs.Install(fs)
	// d2's own mutexes are the simulator's: every attempt to take one is a scheduling point,
	// and finding it taken leads back to the scheduling point, not into the runtime.
	msim := &sched.MutexSim{Sim: sim, Name: func() string {
		w.mu.Lock()
		n := w.gidName[runtime.VerifGID()]
		w.mu.Unlock()
		if n == "" {
			n = "g" + sched.GID()
		}
		return n
	}}
	uninstallMutexes := msim.Install()
	defer func() {
		w.res.ProbeN("d2_mutex_lock_attempts_scheduled", int(msim.Attempts.Load()))
		w.res.ProbeN("d2_mutex_locks_that_found_the_mutex_taken", int(msim.Contended.Load()))
	}()
	// The stub layout engine is a scheduling point in the middle of a compile (after the
	// sources were read, before the result exists): the place where a real compile spends
	// its time.
	stubplugin.P.Before = func() {
		if w.inCompile.Load() {
			sim.Yield("layout:stub")
		}
	}
	defer func() {
		stubplugin.P.Before = nil
		uninstallMutexes()
		simfs.Uninstall()
		verifhook.YieldFn, verifhook.TraceFn, verifhook.ListenerFn = nil, nil, nil
		fsnotify.SimNewBackend = nil
	}()

	layout := "simstub"
	if w.cfg.dagre {
		layout = "dagre"
	}
	proc := cli.New(dir, nil, "--watch", "--browser=0", "--layout="+layout, "index.d2", "out.svg")
	type mainRet struct {
		err error
		pan string
		at  time.Duration
	}
	mainDone := make(chan mainRet, 1)
	go func() {
		defer func() {
			if p := recover(); p != nil {
				mainDone <- mainRet{pan: fmt.Sprintf("%v\n%s", p, debug.Stack()), at: sim.Now()}
			}
		}()
		err := proc.Main(context.Background(), w.sigs)
		mainDone <- mainRet{err: err, at: sim.Now()}
	}()

	for i := 0; i < w.cfg.clients; i++ {
		c := &client{id: i, name: fmt.Sprintf("client-%d", i), state: "new"}
		w.clients = append(w.clients, c)
		go w.browser(c)
	}
	go w.editor()
	if w.cfg.navigate {
		go w.navigator(1 + tp.Draw(5, "nav.count"))
	} else {
		w.navsDone.Store(true)
	}
	opDone := make(chan struct{})
	go func() {
		defer close(opDone)
		sim.Park("operator:signal", []sched.Option{{"SIGTERM", 3}, {"SIGINT", 1}})
		w.signalled.Store(true)
		w.signalAt = sim.Now()
		sim.Emit("operator.signal", nil)
		sim.Logf("operator: signal")
		w.sigs <- syscall.SIGTERM
	}()

	var mr *mainRet
	pollMain := func() bool {
		if mr != nil {
			return true
		}
		select {
		case r := <-mainDone:
			mr = &r
			sim.Logf("d2 --watch returned: err=%v", r.err)
			return true
		default:
			return false
		}
	}

	// "Slow node" fault (a third of the runs): at a tape-chosen step one client's write loop,
	// wherever it is parked, stops getting the CPU for 30-250 scheduler decisions - long
	// enough for several compiles to finish and broadcast meanwhile - and then carries on.
	frozen, frozenUntil := "", 0
	freezeAt, freezesLeft := -1, 0
	seenWL := map[string]bool{}
	if w.cfg.slowWL {
		freezeAt = 10 + tp.Draw(250, "cfg.freezeat")
		freezesLeft = 2
	}
	// Deaf client (C45 profile, a third of the runs): a connected browser stops reading - a
	// frozen tab, a sleeping laptop - for 8-68 simulated seconds, long enough for pings to
	// go unanswered; then the operator's signal becomes very likely while it is still deaf.
	deaf, deafSince, deafFor, deafAt := "", time.Duration(0), time.Duration(0), -1
	if w.cfg.deafClient && w.cfg.profile == "C45" {
		deafAt = 10 + tp.Draw(150, "cfg.deafat")
	}
	// The deaf tab's handler may be a slow node as well (holdThrough runs): its write loop does
	// not get the CPU from the moment the tab goes deaf until close() has run as far as it
	// gets without it (close() sits at none of its own scheduling points any more).
	deafName, closeParked := "", false
	stalledWL := func(k string) bool {
		if deafName == "" || !w.cfg.holdThrough {
			return false
		}
		if k != "wl.wait:"+deafName && k != "wl.getres:"+deafName && k != "lk:watcher.getRes:"+deafName {
			return false
		}
		return !w.closeBegun.Load() || closeParked
	}
	notFrozen := func(k string) bool { return k != frozen && k != deaf && !stalledWL(k) }

	// ---- phase 1: workload
	signalStep := -1
	if w.cfg.profile == "C45" {
		signalStep = tp.Draw(220, "cfg.signalstep")
	}
	extra := 0
	for sim.Steps < sim.MaxSteps {
		sim.Quiesce()
		if pollMain() {
			break
		}
		if w.cfg.profile == "C45" && !w.signalled.Load() && sim.Steps >= signalStep {
			// the operator becomes enabled; more likely while a client is being admitted
			wgt := 1
			for _, k := range sim.ParkedKeys() {
				if strings.HasPrefix(k, "ws.") || strings.Contains(k, ":handshake") || strings.HasPrefix(k, "hs-") {
					wgt = 30
				}
			}
			sim.ClassWeight["operator"] = wgt
		}
		sim.ClassWeight["nav"] = w.baseWeight["nav"]
		if w.editsDone.Load() && w.navsDone.Load() {
			extra++
			if w.cfg.profile == "C44" && extra > w.cfg.extraStep {
				break
			}
		}
		allowTime := true
		gateCheckpoint := w.cfg.gateEditor && w.cfg.stretch != 0 && !w.inCompile.Load() && !w.publishing.Load() && sim.Steps-w.lastInflightStep >= 30 && w.checkpointAt != w.stateKey()
		if w.cfg.profile == "C44" && !w.signalled.Load() && !w.editsDone.Load() && w.saveInProgress.Load() == 0 && (gateCheckpoint || w.wantCheckpoint.Load()) {
			w.wantCheckpoint.Store(false)
			// Mid-run checkpoint: the editor pauses, faults pause, 60 simulated seconds
			// pass, and the same conditions as at the end of the run must hold. This makes
			// every lost update visible, not only one that happens to be the last.
			w.checkpointAt = w.stateKey()
			w.midRun = true
			sim.ClassWeight["editor"] = 0
			w.settle()
			w.midRun = false
			w.checkC44()
			w.settling.Store(false)
			w.kernel.NoFaults = false
			sim.ClassWeight["editor"] = w.baseWeight["editor"]
			w.res.Probe("midrun_checkpoints")
			if w.res.Oracle != "" {
				break
			}
		}
		if frozen != "" && (sim.Steps >= frozenUntil || w.signalled.Load()) {
			sim.Logf("slow node: %s gets the CPU again", frozen)
			frozen = ""
		}
		if deafAt >= 0 && deaf == "" && sim.Steps >= deafAt && !w.signalled.Load() {
			var cands []string
			for _, k := range sim.ParkedKeys() {
				if strings.HasPrefix(k, "browser:") && strings.Count(k, ":") == 1 {
					cands = append(cands, k)
				}
			}
			if len(cands) > 0 {
				deaf = cands[tp.Draw(len(cands), "deaf.which")]
				deafName = strings.TrimPrefix(deaf, "browser:")
				deafSince, deafFor = sim.Now(), 8*time.Second+time.Duration(tp.Draw(60, "deaf.seconds"))*time.Second
				deafAt = -1
				w.fault("client_stopped_reading_for_a_long_time")
				sim.Logf("deaf client: %s stops reading for at least %v", deaf, deafFor)
			}
		}
		if freezesLeft > 0 && frozen == "" && !w.signalled.Load() {
			// either at the tape-chosen step, wherever a write loop is parked then, or
			// (one time in three) right when a write loop arrives at its read of the
			// latest result for the first time: a client that has just registered
			var cands []string
			for _, k := range sim.ParkedKeys() {
				isWL := strings.HasPrefix(k, "wl.wait:") || strings.HasPrefix(k, "wl.getres:") || strings.HasPrefix(k, "lk:watcher.getRes:")
				if !isWL {
					continue
				}
				if freezeAt >= 0 && sim.Steps >= freezeAt {
					cands = append(cands, k)
				} else if strings.HasPrefix(k, "wl.getres:") && !seenWL[k] {
					seenWL[k] = true
					if tp.Chance(1, 3, "freeze.newclient") {
						cands = append(cands, k)
					}
				}
			}
			if len(cands) > 0 {
				frozen = cands[tp.Draw(len(cands), "freeze.which")]
				frozenUntil = sim.Steps + 30 + tp.Draw(220, "freeze.len")
				if freezeAt >= 0 && sim.Steps >= freezeAt {
					freezeAt = -1
				}
				freezesLeft--
				w.fault("client_write_loop_stalled")
				sim.Logf("slow node: %s does not get the CPU for %d decisions", frozen, frozenUntil-sim.Steps)
			}
		}
		w.biasInFlight()
		w.biasHandshakes()
		if deaf != "" {
			if w.closeBegun.Load() && !w.systemParkedAny() {
				deaf = "" // shutdown is past the point of waiting: the tab wakes up
			} else if !w.signalled.Load() {
				if sim.Now()-deafSince < deafFor {
					sim.TimeWeight = 10 // let the seconds pass, in small steps
					sim.Advances = deafAdvances
				} else {
					sim.TimeWeight = 1
					sim.Advances = w.baseAdvances
					sim.ClassWeight["operator"] = 400
					signalStep = 0
				}
			}
		}
		if w.signalled.Load() {
			sim.ClassWeight["operator"] = 0
			// After the shutdown request the O45.3 bound is running: the clock may only
			// move while the simulator is not itself holding a server goroutine parked
			// (simulated clients that stall are fine: that is their fault, not ours).
			allowTime = !w.systemParked()
		}
		closeParked = false
		for _, k := range sim.ParkedKeys() {
			if strings.HasPrefix(k, "close") {
				closeParked = true
			}
		}
		if !sim.Step(allowTime, notFrozen) {
			sim.Advance(time.Second)
		}
		if sim.Now() > 25*time.Minute {
			break
		}
	}

	if w.cfg.profile == "C44" && mr == nil {
		w.settle()
		w.checkC44()
	}
	if mr != nil && !w.signalled.Load() {
		msg := fmt.Sprintf("err=%v", mr.err)
		if mr.pan != "" {
			msg = "panic: " + mr.pan
		}
		res.Fail("C44", "O44.3", "`d2 --watch` ended on its own before any shutdown was requested: %s\nstderr tail: %s", msg, tail(proc.Stderr.String(), 600))
	}

	// ---- shutdown
	if !w.signalled.Load() && mr == nil {
		sim.ClassWeight["operator"] = 1000
		for i := 0; i < 50 && !w.signalled.Load(); i++ {
			sim.Step(false, func(k string) bool { return strings.HasPrefix(k, "operator") })
			sim.Quiesce()
		}
	}
	w.kernel.NoFaults = true
	start := sim.Now()
	for mr == nil && sim.Now()-start < 6*time.Minute && sim.Steps < sim.MaxSteps+3000 {
		sim.Quiesce()
		if pollMain() {
			break
		}
		if sim.Now()-start > 2*time.Minute {
			w.settling.Store(true) // stop stalling clients: the bound is "once faults stop"
		}
		w.biasHandshakes()
		if !sim.Step(!w.systemParked(), nil) {
			sim.Advance(time.Second)
		}
	}
	sim.Quiesce()
	pollMain()
	// What the server's goroutines still do after `d2 --watch` returned counts too (a
	// handler that starts only now was not waited for): run on, without moving the clock,
	// until none of them sits at a park point.
	w.settling.Store(true)
	for i := 0; i < 300 && w.systemParkedAny(); i++ {
		w.biasHandshakes()
		if !sim.Step(false, nil) {
			break
		}
	}
	sim.Quiesce()
	w.checkC45(mr != nil, func() (error, string, time.Duration) {
		if mr == nil {
			return nil, "", 0
		}
		return mr.err, mr.pan, mr.at
	}, proc)

	// ---- end of run: let everything wind down, then look for leaked goroutines
	sim.Drain()
	sim.Quiesce()
	w.kernel.Close()
	w.lis.Close()
	w.mu.Lock()
	for _, c := range w.clients {
		if c.conn != nil {
			c.conn.Close()
		}
		if c.ws != nil {
			go c.ws.CloseNow()
		}
	}
	w.mu.Unlock()
	select {
	case w.sigs <- syscall.SIGTERM:
	default:
	}
	time.Sleep(2 * time.Hour) // beyond the per-client 1 h context and every other timer
	sim.Quiesce()
	if mr == nil {
		pollMain()
	}
	if res.Oracle == "" {
		for _, g := range sched.BubbleGoroutines() {
			if strings.Contains(g, "oss.terrastruct.com/d2/d2cli") {
				res.Fail("C45", "O45.4", "a goroutine of the watch server is still alive two simulated hours after shutdown (leaked handler):\n%s", g)
				break
			}
		}
	}

	// ---- bookkeeping
	w.mu.Lock()
	var cs []string
	for _, c := range w.clients {
		last := "-"
		if n := len(c.frames); n > 0 {
			last = fmt.Sprintf("v%d/w%d/x%d/b%d", c.frames[n-1].Main, c.frames[n-1].Imp, c.frames[n-1].Imp2, c.frames[n-1].Board)
		}
		cs = append(cs, fmt.Sprintf("%s state=%s frames=%d last=%s stalls=%d end=%q", c.name, c.state, len(c.frames), last, c.stalls, c.endErr))
	}
	w.mu.Unlock()
	w.collectProbes()
	tr := sim.Trace()
	res.Trace = tr
	tl := tr
	if len(tl) > 25 {
		tl = tl[len(tl)-25:]
	}
	res.Sample = sample{Profile: w.cfg.profile, Config: fmt.Sprintf("%+v", w.cfg), Steps: sim.Steps, SimTime: sim.Now().String(), Clients: cs, Tail: tl}
	res.Steps = sim.Steps
	res.SimSeconds = (sim.Now() - 2*time.Hour).Seconds()
	res.SchedHash = sim.SchedHash()
	res.Nontrivial = w.cfg.clients > 0 && (w.cfg.edits > 0 || w.cfg.profile == "C45")
}

// biasInFlight (half of the runs): while a compile is in progress, or its result is on the
// way from the compile loop to the clients, the simulator prefers everything that creates
// new work (saves, fs events, the watch loop's requests, the clock for its 16 ms burst
// timer, clients connecting) over finishing the operation in flight. Faults and events
// that land inside an operation are where coalescing and ordering bugs live; uniformly
// random schedules mostly finish a compile before the next save arrives.
func (w *world) biasInFlight() {
	if w.cfg.stretch == 0 || w.signalled.Load() || w.settling.Load() {
		return
	}
	compiling := w.inCompile.Load() && w.cfg.stretch&1 != 0
	publishing := w.publishing.Load() && w.cfg.stretch&2 != 0
	inflight := compiling || publishing
	boost := 4
	if w.cfg.gateEditor {
		boost = 12
	}
	for _, c := range []string{"editor", "kernel", "req", "fsn", "browser"} {
		if inflight {
			w.sim.ClassWeight[c] = w.baseWeight[c] * boost
		} else {
			w.sim.ClassWeight[c] = w.baseWeight[c]
		}
	}
	if w.cfg.gateEditor && !inflight && !w.editsDone.Load() {
		// Gated editor (a third of the stretched runs): saves are held back until an
		// operation is in flight, so that most of them land inside one. The gate opens
		// by itself when nothing has been in flight for 30 decisions.
		if w.sim.Steps-w.lastInflightStep < 30 {
			w.sim.ClassWeight["editor"] = 0
		}
	}
	if inflight {
		w.lastInflightStep = w.sim.Steps
	}
	for _, c := range []string{"fs", "layout", "compile.bcast"} {
		if compiling {
			w.sim.ClassWeight[c] = 1
		} else {
			w.sim.ClassWeight[c] = w.baseWeight[c]
		}
	}
	for _, c := range []string{"bcast.res", "bcast.clients"} {
		if publishing {
			w.sim.ClassWeight[c] = 1
		} else {
			w.sim.ClassWeight[c] = w.baseWeight[c]
		}
	}
	if inflight {
		w.sim.TimeWeight = 6
		w.sim.Advances = shortAdvances // the burst timer is 16 ms; do not leap over poll ticks
	} else {
		w.sim.TimeWeight = 1
		w.sim.Advances = w.baseAdvances
	}
}

var deafAdvances = []time.Duration{200 * time.Millisecond, time.Second, 2 * time.Second}

var shortAdvances = []time.Duration{time.Millisecond, 16 * time.Millisecond, 16 * time.Millisecond, 100 * time.Millisecond}

// biasHandshakes steers slow browser handshakes towards the shutdown window (C45 profile,
// half of the runs): between the shutdown request and the moment close() begins they are
// held back (so that the HTTP server's graceful shutdown has to give up on them), and
// they are let go as soon as close() has begun — the window in which a late admission or a
// handler that starts late would hurt.
func (w *world) biasHandshakes() {
	if w.cfg.profile != "C45" {
		return
	}
	wgt := w.hsWeight
	if !w.cfg.holdHS {
		wgt = -1
	}
	// holdThrough (half of the runs): what was stalled when close() began stays stalled while
	// close() itself can still move (it sits at one of its own scheduling points), and gets
	// the CPU back once close() has returned or waits for it. Otherwise it gets the CPU back
	// right when close() has begun.
	closeCanMove := false
	if w.cfg.holdThrough && w.closeBegun.Load() {
		for _, k := range w.sim.ParkedKeys() {
			if strings.HasPrefix(k, "close") {
				closeCanMove = true
			}
		}
	}
	if w.signalled.Load() && !w.settling.Load() {
		if w.closeBegun.Load() {
			wgt = 40
			if closeCanMove {
				wgt = 0
			}
		} else if w.sim.Now()-w.signalAt < 45*time.Second {
			wgt = 0
		}
	}
	for _, c := range []string{"hs-send", "hs-mid", "hs-await"} {
		if wgt >= 0 {
			w.sim.ClassWeight[c] = wgt
		}
	}
	// "Stalled goroutine" fault (a third of the C45 runs): a request handler that has not
	// yet reached the admission check, or sits between admission and the upgrade, is not
	// scheduled while the server shuts down (the HTTP server's graceful shutdown gives up
	// on it after 30 s) and gets the CPU back right when close() has begun.
	if w.cfg.holdAdmit {
		for _, c := range []string{"ws.admit", "ws.accept"} {
			wgt := w.admitWeight[c]
			if w.signalled.Load() && !w.settling.Load() {
				if w.closeBegun.Load() {
					wgt = 60
					if closeCanMove {
						wgt = 0
					}
				} else if w.sim.Now()-w.signalAt < 45*time.Second {
					wgt = 0
					w.heldAdmit = true
				}
			}
			w.sim.ClassWeight[c] = wgt
		}
	}
}

func (w *world) stateKey() int {
	w.mu.Lock()
	defer w.mu.Unlock()
	return ((w.mainVer*100+w.impVer)*100+w.imp2Ver)*4 + w.navBoard
}

func (w *world) systemParkedAny() bool {
	for _, k := range w.sim.ParkedKeys() {
		switch {
		case strings.HasPrefix(k, "browser:"), strings.HasPrefix(k, "editor:"), strings.HasPrefix(k, "operator:"), strings.HasPrefix(k, "kernel:"), strings.HasPrefix(k, "hs-"), strings.HasPrefix(k, "nav:"):
		default:
			return true
		}
	}
	return false
}

// systemParked reports whether any goroutine of the system under test sits at a park point.
func (w *world) systemParked() bool {
	for _, k := range w.sim.ParkedKeys() {
		if w.cfg.holdAdmit && w.signalled.Load() && !w.closeBegun.Load() && (strings.HasPrefix(k, "ws.admit:") || strings.HasPrefix(k, "ws.accept:")) && w.sim.ClassWeight[strings.SplitN(k, ":", 2)[0]] == 0 {
			continue // deliberately stalled by the fault above
		}
		switch {
		case strings.HasPrefix(k, "browser:"), strings.HasPrefix(k, "editor:"), strings.HasPrefix(k, "operator:"), strings.HasPrefix(k, "kernel:"), strings.HasPrefix(k, "hs-"), strings.HasPrefix(k, "nav:"):
		default:
			return true
		}
	}
	return false
}

// d2Stacks returns the stacks of the bubble's goroutines that are inside d2 code.
func d2Stacks() string {
	var out []string
	for _, g := range sched.BubbleGoroutines() {
		if strings.Contains(g, "oss.terrastruct.com/") {
			out = append(out, g)
		}
	}
	return strings.Join(out, "\n\n")
}

func tail(s string, n int) string {
	if len(s) > n {
		return "…" + s[len(s)-n:]
	}
	return s
}

// settle: the input has stopped changing; faults stop; every client reads whenever it can.
// Bounded liveness: 60 simulated seconds (16 ms burst timer, <= 16 s re-watch back-off, the
// 10 s poll that recovers a dropped write event, compile latency).
func (w *world) settle() {
	sim := w.sim
	w.settling.Store(true)
	w.kernel.NoFaults = true
	sim.ClassWeight["nav"] = 0 // no new navigation; a GET in flight completes
	// let a half-finished save complete (and, at the end of the run, the remaining saves);
	// a gate that was holding the editor back is open now
	if !w.midRun || w.saveInProgress.Load() != 0 {
		if bw := w.baseWeight["editor"]; bw > 0 {
			sim.ClassWeight["editor"] = bw
		} else {
			sim.ClassWeight["editor"] = 1
		}
	}
	for i := 0; i < 400 && !w.editsDone.Load() && (w.saveInProgress.Load() != 0 || !w.midRun); i++ {
		if !sim.Step(false, nil) {
			sim.Advance(100 * time.Millisecond)
		}
	}
	// never compare against a version that is not on disk yet
	for i := 0; i < 200 && w.saveInProgress.Load() != 0; i++ {
		if !sim.Step(false, func(k string) bool { return strings.HasPrefix(k, "editor:") }) {
			sim.Advance(100 * time.Millisecond)
		}
	}
	w.skipC44 = w.saveInProgress.Load() != 0
	if w.skipC44 {
		w.probe("settle_with_a_save_still_in_progress_conditions_not_checked")
	}
	sim.Logf("settle: input stable at %v, faults off", w.want())
	deadline := sim.Now() + 60*time.Second
	for n := 0; n < 4000; n++ {
		if sim.Step(false, nil) {
			continue
		}
		if sim.Now() >= deadline {
			break
		}
		sim.Advance(time.Second)
	}
	sim.Quiesce()
}

// same compares what a result shows with what it should show; the board is left out once a
// navigation went unanswered (see navigator).
func (w *world) same(got, want vers) bool {
	if w.navUncertain.Load() {
		got.Board, want.Board = 0, 0
	}
	return got == want
}

func (w *world) checkC44() {
	res := w.res
	if w.skipC44 {
		return
	}
	want := w.want()
	evs := w.sim.Events()
	// O44.2a: the last compile used the latest content (and the board navigated to last)
	var lastCompile *verEv
	for i := range evs {
		if evs[i].Name == "compile.end" {
			if v, ok := evs[i].Arg.(verEv); ok {
				vv := v
				lastCompile = &vv
			}
		}
	}
	if lastCompile == nil {
		res.Fail("C44", "O44.2", "no compile finished although the watcher ran for %v of simulated time", w.sim.Now())
		return
	}
	if !w.same(lastCompile.vers(), want) {
		res.Fail("C44", "O44.2", "input stopped changing at %v; 60 simulated seconds later the last compile had used %v", want, lastCompile.vers())
		return
	}
	if !w.cfg.navigate {
		b, err := os.ReadFile(filepath.Join(w.dir, "out.svg"))
		if err == nil {
			if v := versions(string(b)); v != want {
				res.Fail("C44", "O44.2", "output file holds %v, latest content is %v", v, want)
				return
			}
		}
	}
	// O44.2b + O44.1 per client
	w.mu.Lock()
	defer w.mu.Unlock()
	subject := 0
	for _, c := range w.clients {
		hi := [3]int{-1, -1, -1}
		at := 0 // O44.1b: position in the sequence of stored results
		for _, f := range c.frames {
			for k, v := range [3]int{f.Main, f.Imp, f.Imp2} {
				if v < 0 {
					continue
				}
				if v < hi[k] {
					res.Fail("C44", "O44.1", "%s received version %d of %s after it had already received version %d (frames: %s)", c.name, v, []string{"index.d2", "b.d2", "c.d2"}[k], hi[k], frameList(c.frames))
					return
				}
				hi[k] = v
			}
			// Results reach a client in compile order: the frames are a subsequence (with
			// repetitions) of the results the compile loop stored, in that order. The
			// earliest possible match is taken, so a valid assignment is found if one exists.
			if f.Hash != 0 {
				j := at
				for j < len(w.stored) && w.stored[j] != f.Hash {
					j++
				}
				if j == len(w.stored) {
					res.Fail("C44", "O44.1", "%s received a result (%s) that is not among the results compiled after the one it received before (position %d of %d stored results): results out of compile order, or a result that was never compiled (frames: %s)", c.name, vers{f.Main, f.Imp, f.Imp2, f.Board}, at, len(w.stored), frameList(c.frames))
					return
				}
				at = j
			}
		}
		if c.state != "open" {
			// The server may drop a client that does not read: the heartbeat's ping is a
			// control frame with a 5 s write timeout (and it is sent right after the
			// upgrade), results have 30 s. Only a client the simulator never kept from
			// reading for 4 simulated seconds must stay connected.
			if c.state == "ended" && c.maxPark < 4*time.Second && c.stalls == 0 {
				res.Fail("C44", "O44.2", "%s was disconnected by the server (%s) although it never stopped reading for as long as 4 s", c.name, c.endErr)
				return
			}
			continue
		}
		subject++
		if len(c.frames) == 0 {
			res.Fail("C44", "O44.2", "%s is connected but never received a result; latest content is %v", c.name, want)
			return
		}
		last := c.frames[len(c.frames)-1]
		if got := (vers{last.Main, last.Imp, last.Imp2, last.Board}); !w.same(got, want) {
			res.Fail("C44", "O44.2", "%s is connected and reading; input stopped changing at %v, but 60 simulated seconds later the last result it received is %v (err=%q; frames: %s)", c.name, want, got, last.Err, frameList(c.frames))
			return
		}
	}
	res.ProbeN("clients_subject_to_final_delivery", subject)
}

func frameList(fs []frame) string {
	var sb strings.Builder
	for _, f := range fs {
		if f.Err != "" && f.Main < 0 {
			sb.WriteString("err ")
			continue
		}
		fmt.Fprintf(&sb, "v%d/w%d/x%d/b%d ", f.Main, f.Imp, f.Imp2, f.Board)
	}
	return sb.String()
}

func (w *world) checkC45(returned bool, get func() (error, string, time.Duration), proc *cli.Proc) {
	res := w.res
	evs := w.sim.Events()
	err, pan, at := get()
	if pan != "" {
		res.Fail("C45", "O45.4", "the watch server panicked: %s", pan)
		return
	}
	if !returned {
		res.Fail("C45", "O45.3", "shutdown was requested at %v but `d2 --watch` had not returned 5 simulated minutes later (parked: %v)\n%s", w.signalAt, w.sim.ParkedKeys(), d2Stacks())
		return
	}
	if err != nil && strings.Contains(err.Error(), "forcefully") {
		res.Fail("C45", "O45.3", "shutdown took longer than the 1 minute xmain allows: %v\n%s", err, d2Stacks())
		return
	}
	if w.signalled.Load() && at-w.signalAt > 5*time.Minute {
		res.Fail("C45", "O45.3", "shutdown took %v of simulated time", at-w.signalAt)
		return
	}
	admitted, started, exited, acceptFailed := 0, 0, 0, 0
	closeBegin, closeEnd := -1, -1
	for i, e := range evs {
		switch e.Name {
		case "ws.admitted":
			admitted++
			if closeBegin >= 0 {
				res.Fail("C45", "O45.2", "client %v was admitted after shutdown had begun (close.begin is event %d, admission event %d)", e.Arg, closeBegin, i)
				return
			}
		case "ws.handler.start":
			started++
			if closeEnd >= 0 {
				res.Fail("C45", "O45.1", "a client handler (%v) started after the watcher's close had already returned", e.Arg)
				return
			}
		case "ws.handler.exit":
			exited++
		case "ws.accept.failed":
			acceptFailed++
		case "close.begin":
			if closeBegin < 0 {
				closeBegin = i
				if admitted > started+acceptFailed {
					w.probe("close_began_while_an_admitted_client_was_still_upgrading")
				}
			}
		case "close.end":
			if closeEnd < 0 {
				closeEnd = i
				if started != exited {
					res.Fail("C45", "O45.1", "the watcher's close returned while %d of %d client handlers were still running", started-exited, started)
					return
				}
				if admitted != exited+acceptFailed {
					res.Fail("C45", "O45.1", "close returned with %d admitted clients but only %d finished handlers and %d failed upgrades", admitted, exited, acceptFailed)
					return
				}
			}
		}
	}
	if closeEnd < 0 {
		res.Fail("C45", "O45.1", "`d2 --watch` returned (err=%v) without the watcher's close having completed", err)
		return
	}
	if started != exited {
		res.Fail("C45", "O45.1", "`d2 --watch` returned while %d client handlers were still running", started-exited)
		return
	}
	if err != nil {
		w.probe("main_returned_error")
		w.sim.Logf("main returned error: %v", err)
	}
	res.ProbeN("handlers_started", started)
	res.ProbeN("clients_admitted", admitted)
}

func (w *world) collectProbes() {
	evs := w.sim.Events()
	inCompile := false
	cnt := map[string]int{}
	for _, e := range evs {
		switch e.Name {
		case "compile.begin":
			inCompile = true
			cnt["compiles"]++
		case "compile.end":
			inCompile = false
			if v, ok := e.Arg.(verEv); ok && v.Main < 0 {
				cnt["torn_or_failed_compile"]++
			}
		case "req.coalesced":
			cnt["request_coalesced"]++
			if inCompile {
				cnt["request_coalesced_during_compile"]++
			}
		case "req.sent":
			if inCompile {
				cnt["request_arrived_during_compile"]++
			}
		case "ws.rejected":
			cnt["client_rejected_during_shutdown"]++
		case "ws.accept.failed":
			cnt["upgrade_failed"]++
		case "ws.registered":
			cnt["client_registered"]++
		case "client.frame":
			cnt["frames_received"]++
		}
	}
	for k, v := range cnt {
		w.res.ProbeN(k, v)
	}
	w.mu.Lock()
	for _, c := range w.clients {
		w.res.Probe("client_state." + strings.SplitN(c.state, "-", 2)[0])
	}
	w.mu.Unlock()
	w.res.ProbeN("fs_events_delivered", w.kernel.Delivered)
}
