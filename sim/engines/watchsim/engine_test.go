package watchsim

import (
	"testing"

	"verifsim/harness"
	"verifsim/tape"
)

func TestEngine(t *testing.T) {
	harness.Main(harness.LoadConfig(), func(cfg harness.Config, idx int, tp *tape.Tape) harness.Result {
		return Run(t, cfg, idx, tp)
	})
}
