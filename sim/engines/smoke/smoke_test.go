package smoke

import (
	"fmt"
	"os"
	"runtime"
	"strconv"
	"testing"
)

// TestSeam prints the iteration order of a few maps and some select choices under the
// runtime seam; used by the determinism self-test of the overlay itself.
func TestSeam(t *testing.T) {
	salt, _ := strconv.ParseUint(os.Getenv("VSIM_SALT"), 10, 64)
	runtime.VerifSimEnable(salt)
	defer runtime.VerifSimDisable()
	out := ""
	for _, n := range []int{5, 9, 40} {
		m := map[int]bool{}
		ms := map[string]int{}
		for i := 0; i < n; i++ {
			m[i] = true
			ms[fmt.Sprintf("k%d", i)] = i
		}
		for k := range m {
			out += fmt.Sprintf("%d,", k)
		}
		out += "|"
		for k := range ms {
			out += k + ","
		}
		out += "\n"
	}
	a, b := make(chan int, 1), make(chan int, 1)
	for i := 0; i < 16; i++ {
		a <- 1
		b <- 1
		select {
		case <-a:
			out += "a"
			<-b
		case <-b:
			out += "b"
			<-a
		}
	}
	done := make(chan string)
	for i := 0; i < 3; i++ {
		go func() {
			m := map[int]bool{1: true, 2: true, 3: true, 4: true, 5: true, 6: true}
			s := ""
			for k := range m {
				s += fmt.Sprint(k)
			}
			done <- s
		}()
		out += " " + <-done
	}
	fmt.Println(out)
}
