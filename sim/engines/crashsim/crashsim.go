// Package crashsim decides C48 by fault enumeration: for a generated input it records the
// file-system operations of `d2 fmt f.d2` / `d2 in.d2 out.svg` (real d2cli.Run, in-process)
// and then re-runs the command once per operation with the process "killed" just before
// it (crash-freeze, see simfs), plus inside every write after 1, n/2 and n-1 bytes.
// Afterwards the target must hold its complete previous or its complete new content.
package crashsim

import (
	"bytes"
	"context"
	"fmt"
	"hash/fnv"
	"os"
	"path/filepath"
	"regexp"
	"runtime"
	"runtime/debug"
	"strings"
	"sync"
	"syscall"

	"oss.terrastruct.com/d2/d2format"
	"oss.terrastruct.com/d2/d2parser"

	"verifsim/cli"
	"verifsim/corpus"
	"verifsim/harness"
	"verifsim/simfs"
	"verifsim/tape"
)

var (
	corpusOnce sync.Once
	fmtCorpus  []corpus.Entry // entries that parse cleanly and are not in canonical format
	sandboxSeq int
)

func loadCorpus() {
	corpusOnce.Do(func() {
		for _, e := range corpus.Load() {
			m, err := d2parser.Parse("f.d2", strings.NewReader(e.Text), nil)
			if err != nil {
				continue
			}
			if d2format.Format(m) != e.Text {
				fmtCorpus = append(fmtCorpus, e)
			}
		}
	})
}

type fileSpec struct {
	Name    string
	Old     []byte
	Absent  bool // target does not exist before the command
	IsInput bool // a source the command only reads (render)
}

type scenario struct {
	Cmd     string // "fmt" | "render"
	Args    []string
	Files   []fileSpec
	Targets []string // names of files the property speaks about
	Desc    string
}

func genUnformatted(tp *tape.Tape, thorough bool) string {
	kinds := []int{200, 4 << 10, 64 << 10, 300 << 10}
	if thorough {
		kinds = append(kinds, 2<<20)
	}
	size := kinds[tp.Draw(len(kinds), "fmt.size")]
	var sb strings.Builder
	i := 0
	for sb.Len() < size {
		switch tp.Draw(5, "fmt.line") {
		case 0:
			fmt.Fprintf(&sb, "a%d->b%d:{shape:circle}\n", i, i)
		case 1:
			fmt.Fprintf(&sb, "n%d   :   \"日本語 %d\"   \n", i, i)
		case 2:
			fmt.Fprintf(&sb, "c%d: {\n      x->y;z\n}\n", i)
		case 3:
			fmt.Fprintf(&sb, "t%d: |md\n  # héllo %d\n|\n", i, i)
		case 4:
			fmt.Fprintf(&sb, "e%d  <->  f%d :  lbl  { style.opacity : 0.4 }\n", i, i)
		}
		i++
		if size > 8<<10 && i > 64 {
			// bulk: repeat a block with unique keys without further draws
			for sb.Len() < size {
				fmt.Fprintf(&sb, "k%d->m%d:{label:x;shape:square}\n", i, i)
				i++
			}
		}
	}
	return sb.String()
}

func genDiagram(tp *tape.Tape) string {
	n := 1 + tp.Draw(5, "render.shapes")
	var sb strings.Builder
	shapes := []string{"rectangle", "circle", "cylinder", "diamond", "hexagon", "person"}
	for i := 0; i < n; i++ {
		fmt.Fprintf(&sb, "s%d: \"node %d\" {shape: %s}\n", i, i, shapes[tp.Draw(len(shapes), "render.shape")])
	}
	for i := 1; i < n; i++ {
		if tp.Chance(2, 3, "render.edge") {
			fmt.Fprintf(&sb, "s%d -> s%d: e%d\n", tp.Draw(i, "render.src"), i, i)
		}
	}
	if tp.Chance(1, 4, "render.container") {
		sb.WriteString("box: {\n  inner1 -> inner2\n}\n")
	}
	return sb.String()
}

func genScenario(tp *tape.Tape, idx int, thorough bool) scenario {
	loadCorpus()
	if tp.Weighted([]int{3, 2}, "cmd") == 0 {
		sc := scenario{Cmd: "fmt"}
		nfiles := 1
		if tp.Chance(1, 5, "fmt.twofiles") {
			nfiles = 2
		}
		sc.Args = []string{"fmt"}
		for f := 0; f < nfiles; f++ {
			var text string
			if len(fmtCorpus) > 0 && tp.Chance(1, 2, "fmt.corpus") {
				e := fmtCorpus[(idx+f*7919+tp.Draw(len(fmtCorpus), "fmt.pick"))%len(fmtCorpus)]
				text = e.Text
				sc.Desc += "corpus:" + e.Name + " "
			} else {
				text = genUnformatted(tp, thorough)
				sc.Desc += fmt.Sprintf("generated:%dB ", len(text))
			}
			name := fmt.Sprintf("f%d.d2", f)
			sc.Files = append(sc.Files, fileSpec{Name: name, Old: []byte(text)})
			sc.Targets = append(sc.Targets, name)
			sc.Args = append(sc.Args, name)
		}
		return sc
	}
	sc := scenario{Cmd: "render"}
	src := genDiagram(tp)
	out := "out.svg"
	if tp.Chance(1, 4, "render.subdir") {
		out = "sub/dir/out.svg"
	}
	sc.Files = append(sc.Files, fileSpec{Name: "in.d2", Old: []byte(src), IsInput: true})
	old := fileSpec{Name: out}
	switch tp.Draw(4, "render.old") {
	case 0:
		old.Old = []byte("<svg>previous render, short</svg>\n")
	case 1:
		old.Old = bytes.Repeat([]byte("<!-- previous render, longer than the new one -->\n"), 4000)
	case 2:
		old.Old = []byte{}
	case 3:
		old.Absent = true
	}
	if out != "out.svg" && !old.Absent && tp.Chance(1, 2, "render.nodir") {
		old.Absent = true
	}
	sc.Files = append(sc.Files, old)
	sc.Targets = []string{out}
	sc.Args = []string{}
	if tp.Chance(1, 4, "render.sketch") {
		sc.Args = append(sc.Args, "--sketch")
	}
	if tp.Chance(1, 4, "render.theme") {
		sc.Args = append(sc.Args, "--theme=3")
	}
	sc.Args = append(sc.Args, "in.d2", out)
	sc.Desc = fmt.Sprintf("render %dB -> %s old=%dB absent=%v", len(src), out, len(old.Old), old.Absent)
	return sc
}

func tmpRoot() string {
	if d := os.Getenv("VSIM_TMP"); d != "" {
		return d
	}
	return os.TempDir()
}

func restore(dir string, sc scenario) error {
	ents, _ := os.ReadDir(dir)
	for _, e := range ents {
		if err := os.RemoveAll(filepath.Join(dir, e.Name())); err != nil {
			return err
		}
	}
	for _, f := range sc.Files {
		if f.Absent {
			continue
		}
		p := filepath.Join(dir, f.Name)
		if err := os.MkdirAll(filepath.Dir(p), 0755); err != nil {
			return err
		}
		if err := os.WriteFile(p, f.Old, 0644); err != nil {
			return err
		}
	}
	return nil
}

type outcome struct {
	ops        []simfs.Op
	err        error
	panicked   string
	suppressed int
}

// execute runs the command once. crashAt = 0: no crash. midK > 0: the crash happens inside
// write number crashAt after midK bytes.
func execute(dir string, sc scenario, crashAt, midK int) outcome {
	fs := &simfs.FS{Root: dir, Record: true}
	if crashAt > 0 {
		fs.Handler = func(op simfs.Op) simfs.Decision {
			if op.Seq != crashAt {
				return simfs.Decision{}
			}
			fs.Freeze()
			if midK > 0 && (op.Name == "write" || op.Name == "pwrite") {
				return simfs.Decision{Mode: simfs.ShortThenFail, N: midK, Err: syscall.EIO}
			}
			if op.Mutating() || (op.Name == "openat" && op.Flags&syscall.O_ACCMODE != syscall.O_RDONLY) {
				return simfs.Decision{Mode: simfs.Fail, Err: syscall.EIO}
			}
			return simfs.Decision{}
		}
	}
	p := cli.New(dir, nil, sc.Args...)
	var o outcome
	// Deterministic CreateTemp names and map orders, so that operation i of a crash run is
	// operation i of the recorded run.
	runtime.VerifSimEnable(0x48c48c48)
	simfs.Install(fs)
	func() {
		defer func() {
			if r := recover(); r != nil {
				o.panicked = fmt.Sprintf("%v\n%s", r, debug.Stack())
			}
		}()
		o.err = p.Run(context.Background())
	}()
	simfs.Uninstall()
	runtime.VerifSimDisable()
	o.ops = fs.Ops
	o.suppressed = fs.Suppressed
	return o
}

func hash64(parts ...any) uint64 {
	h := fnv.New64a()
	fmt.Fprint(h, parts...)
	return h.Sum64()
}

var tmpName = regexp.MustCompile(`/tmp-([^/]*)-[0-9]+`)

// opKey identifies an operation; the random suffix of CreateTemp names is normalised (it
// depends on how many maps earlier code created, which process-wide caches change
// between the first and later runs).
func opKey(o simfs.Op) string {
	return fmt.Sprintf("%s|%s|%s|%d|%d", o.Name, tmpName.ReplaceAllString(o.Path, "/tmp-$1-N"), tmpName.ReplaceAllString(o.Path2, "/tmp-$1-N"), o.N, o.Flags)
}

type sample struct {
	Scenario    string   `json:"scenario"`
	Args        []string `json:"args"`
	Ops         []string `json:"recorded_ops"`
	CrashPoints int      `json:"crash_points_executed"`
}

func Run(cfg harness.Config, idx int, tp *tape.Tape) harness.Result {
	var res harness.Result
	sc := genScenario(tp, idx, cfg.Thorough())
	sandboxSeq++
	dir := filepath.Join(tmpRoot(), fmt.Sprintf("verifsim-crash-%d-%d", os.Getpid(), sandboxSeq))
	if err := os.MkdirAll(dir, 0755); err != nil {
		res.HarnessError = err.Error()
		return res
	}
	defer os.RemoveAll(dir)
	if rp, err := filepath.EvalSymlinks(dir); err == nil {
		dir = rp
	}
	res.Tracef("scenario: d2 %s   (%s)", strings.Join(sc.Args, " "), sc.Desc)

	// ---- uninterrupted run: operation list and the new content
	if err := restore(dir, sc); err != nil {
		res.HarnessError = err.Error()
		return res
	}
	dry := execute(dir, sc, 0, 0)
	if dry.panicked != "" {
		res.HarnessError = "uninterrupted run panicked: " + dry.panicked
		return res
	}
	if dry.err != nil {
		res.HarnessError = fmt.Sprintf("uninterrupted run of d2 %v failed: %v", sc.Args, dry.err)
		return res
	}
	newContent := map[string][]byte{}
	oldContent := map[string]*fileSpec{}
	changed := false
	for i := range sc.Files {
		f := &sc.Files[i]
		oldContent[f.Name] = f
	}
	for _, t := range sc.Targets {
		b, err := os.ReadFile(filepath.Join(dir, t))
		if err != nil {
			res.HarnessError = fmt.Sprintf("uninterrupted run left no %s: %v", t, err)
			return res
		}
		newContent[t] = b
		if oldContent[t].Absent || !bytes.Equal(b, oldContent[t].Old) {
			changed = true
		}
	}
	for _, o := range dry.ops {
		res.Tracef("op %s", strings.Replace(tmpName.ReplaceAllString(o.String(), "/tmp-$1-N"), dir, "$SANDBOX", -1))
	}
	if !changed {
		res.Probe("no_rewrite_needed")
		res.SchedHash = hash64(sc.Cmd, sc.Desc)
		return res
	}
	res.Nontrivial = true
	res.SchedHash = hash64(sc.Cmd, sc.Desc, len(dry.ops))

	type point struct{ at, mid int }
	var points []point
	for _, o := range dry.ops {
		points = append(points, point{o.Seq, 0})
		if (o.Name == "write" || o.Name == "pwrite") && o.N >= 2 {
			seen := map[int]bool{}
			for _, k := range []int{1, o.N / 2, o.N - 1} {
				if k >= 1 && k < o.N && !seen[k] {
					seen[k] = true
					points = append(points, point{o.Seq, k})
				}
			}
		}
	}
	points = append(points, point{len(dry.ops) + 1, 0}) // killed after the last operation

	inputHash := hash64(sc.Args, sc.Desc)
	executed := 0
	for _, pt := range points {
		if err := restore(dir, sc); err != nil {
			res.HarnessError = err.Error()
			return res
		}
		out := execute(dir, sc, pt.at, pt.mid)
		executed++
		if out.panicked != "" {
			// The dying process may well panic on EIO after its death; what counts is the disk.
			res.Probe("panic_after_crash_point")
		}
		// soundness of the enumeration: the run must have been the recorded run up to the crash point
		lim := pt.at - 1
		if lim > len(out.ops) || lim > len(dry.ops) {
			res.HarnessError = fmt.Sprintf("crash run at op %d issued only %d operations (recorded run: %d)", pt.at, len(out.ops), len(dry.ops))
			return res
		}
		for i := 0; i < lim; i++ {
			if opKey(out.ops[i]) != opKey(dry.ops[i]) {
				res.HarnessError = fmt.Sprintf("crash run diverged from the recorded run at op %d: %s vs %s", i+1, out.ops[i], dry.ops[i])
				return res
			}
		}
		var what string
		if pt.at <= len(dry.ops) {
			opS := strings.Replace(tmpName.ReplaceAllString(dry.ops[pt.at-1].String(), "/tmp-$1-N"), dir, "$SANDBOX", -1)
			what = "killed just before " + opS
			if pt.mid > 0 {
				what = fmt.Sprintf("killed inside %s after %d bytes", opS, pt.mid)
				res.Fault("crash_inside_write")
			} else if dry.ops[pt.at-1].Mutating() {
				res.Fault("crash_before_mutating_op")
			} else {
				res.Fault("crash_before_readonly_op")
			}
		} else {
			what = "killed after the last operation"
			res.Fault("crash_after_last_op")
		}
		res.ExtraHashes = append(res.ExtraHashes, hash64(inputHash, pt.at, pt.mid))
		for _, t := range sc.Targets {
			b, err := os.ReadFile(filepath.Join(dir, t))
			old := oldContent[t]
			switch {
			case err != nil && os.IsNotExist(err):
				if !old.Absent {
					res.Fail("C48", "O48", "d2 %s, %s: %s no longer exists (it held %d bytes before the command)", strings.Join(sc.Args, " "), what, t, len(old.Old))
				}
			case err != nil:
				res.HarnessError = err.Error()
				return res
			case !old.Absent && bytes.Equal(b, old.Old):
				res.Probe("target_holds_old")
			case bytes.Equal(b, newContent[t]):
				res.Probe("target_holds_new")
			default:
				desc := fmt.Sprintf("%d bytes that are neither the previous %d bytes nor the new %d bytes", len(b), len(old.Old), len(newContent[t]))
				if len(b) == 0 {
					desc = fmt.Sprintf("nothing (empty file); previous content was %d bytes, new content is %d bytes", len(old.Old), len(newContent[t]))
				} else if bytes.HasPrefix(newContent[t], b) {
					desc = fmt.Sprintf("a %d-byte prefix of the new %d-byte content (previous content: %d bytes)", len(b), len(newContent[t]), len(old.Old))
				}
				res.Fail("C48", "O48", "d2 %s, %s: %s holds %s", strings.Join(sc.Args, " "), what, t, desc)
			}
		}
		if res.Oracle != "" {
			res.Tracef("crash point: %s", what)
			break
		}
	}
	res.Evals = executed
	res.Steps = executed
	res.ProbeN("crash_points_executed", executed)
	res.Probe("cmd." + sc.Cmd)
	var ops []string
	for _, o := range dry.ops {
		ops = append(ops, strings.Replace(o.String(), dir, "$SANDBOX", -1))
	}
	res.Sample = sample{Scenario: sc.Desc, Args: sc.Args, Ops: ops, CrashPoints: executed}
	return res
}
