// Package crashsim decides C48 by fault enumeration: for a generated input it records the
// file-system operations of `d2 fmt f.d2` / `d2 in.d2 out.svg` (real d2cli.Run, in-process)
// and then re-runs the command once per operation with the process "killed" just before
// it (crash-freeze, see simfs), plus inside every write after 1, n/2 and n-1 bytes.
// Afterwards the target must hold its complete previous or its complete new content.
package crashsim

import (
	"bytes"
	"context"
	"fmt"
	"hash/fnv"
	"os"
	"os/exec"
	"path/filepath"
	"regexp"
	"runtime"
	"runtime/debug"
	"strings"
	"sync"
	"syscall"

	"oss.terrastruct.com/d2/d2format"
	"oss.terrastruct.com/d2/d2parser"

	"verifsim/cli"
	"verifsim/corpus"
	"verifsim/harness"
	"verifsim/simfs"
	"verifsim/tape"
)

var (
	corpusOnce sync.Once
	fmtCorpus  []corpus.Entry // entries that parse cleanly and are not in canonical format
	sandboxSeq int
)

func loadCorpus() {
	corpusOnce.Do(func() {
		for _, e := range corpus.Load() {
			m, err := d2parser.Parse("f.d2", strings.NewReader(e.Text), nil)
			if err != nil {
				continue
			}
			if d2format.Format(m) != e.Text {
				fmtCorpus = append(fmtCorpus, e)
			}
		}
	})
}

type fileSpec struct {
	LinkTo  string // the target is a symbolic link to this (relative) path, which holds Old
	Name    string
	Old     []byte
	Absent  bool // target does not exist before the command
	IsInput bool // a source the command only reads (render)
}

type scenario struct {
	// TmpElsewhere: the process's TMPDIR is a directory on another (simulated) file system
	// than the one holding the sources and outputs, as with /tmp on tmpfs or a container
	// volume: renames between the two fail with EXDEV.
	TmpElsewhere bool
	// ForeignOwner: the sources and outputs that exist before the command belong to
	// somebody else (the process may write them; it cannot chown anything to them).
	ForeignOwner bool
	Cmd          string // "fmt" | "render"
	Args         []string
	Files        []fileSpec
	Targets      []string // names of files the property speaks about
	Desc         string
}

func genUnformatted(tp *tape.Tape, thorough bool) string {
	kinds := []int{200, 4 << 10, 64 << 10, 300 << 10}
	if thorough {
		kinds = append(kinds, 2<<20)
	}
	size := kinds[tp.Draw(len(kinds), "fmt.size")]
	var sb strings.Builder
	i := 0
	for sb.Len() < size {
		switch tp.Draw(5, "fmt.line") {
		case 0:
			fmt.Fprintf(&sb, "a%d->b%d:{shape:circle}\n", i, i)
		case 1:
			fmt.Fprintf(&sb, "n%d   :   \"日本語 %d\"   \n", i, i)
		case 2:
			fmt.Fprintf(&sb, "c%d: {\n      x->y;z\n}\n", i)
		case 3:
			fmt.Fprintf(&sb, "t%d: |md\n  # héllo %d\n|\n", i, i)
		case 4:
			fmt.Fprintf(&sb, "e%d  <->  f%d :  lbl  { style.opacity : 0.4 }\n", i, i)
		}
		i++
		if size > 8<<10 && i > 64 {
			// bulk: repeat a block with unique keys without further draws
			for sb.Len() < size {
				fmt.Fprintf(&sb, "k%d->m%d:{label:x;shape:square}\n", i, i)
				i++
			}
		}
	}
	return sb.String()
}

func genDiagram(tp *tape.Tape) string {
	n := 1 + tp.Draw(5, "render.shapes")
	var sb strings.Builder
	shapes := []string{"rectangle", "circle", "cylinder", "diamond", "hexagon", "person"}
	for i := 0; i < n; i++ {
		fmt.Fprintf(&sb, "s%d: \"node %d\" {shape: %s}\n", i, i, shapes[tp.Draw(len(shapes), "render.shape")])
	}
	for i := 1; i < n; i++ {
		if tp.Chance(2, 3, "render.edge") {
			fmt.Fprintf(&sb, "s%d -> s%d: e%d\n", tp.Draw(i, "render.src"), i, i)
		}
	}
	if tp.Chance(1, 4, "render.container") {
		sb.WriteString("box: {\n  inner1 -> inner2\n}\n")
	}
	return sb.String()
}

func genScenario(tp *tape.Tape, idx int, thorough bool) scenario {
	sc := genScenario1(tp, idx, thorough)
	sc.TmpElsewhere = tp.Chance(1, 2, "layout.tmp-elsewhere")
	if sc.TmpElsewhere {
		sc.Desc += " [TMPDIR on another file system]"
	}
	sc.ForeignOwner = tp.Chance(1, 4, "layout.foreign-owner")
	if sc.ForeignOwner {
		sc.Desc += " [existing files owned by another user]"
	}
	return sc
}

func genScenario1(tp *tape.Tape, idx int, thorough bool) scenario {
	loadCorpus()
	if tp.Weighted([]int{3, 2}, "cmd") == 0 {
		sc := scenario{Cmd: "fmt"}
		nfiles := 1
		if tp.Chance(1, 5, "fmt.twofiles") {
			nfiles = 2
		}
		sc.Args = []string{"fmt"}
		for f := 0; f < nfiles; f++ {
			var text string
			if len(fmtCorpus) > 0 && tp.Chance(1, 2, "fmt.corpus") {
				e := fmtCorpus[(idx+f*7919+tp.Draw(len(fmtCorpus), "fmt.pick"))%len(fmtCorpus)]
				text = e.Text
				sc.Desc += "corpus:" + e.Name + " "
			} else {
				text = genUnformatted(tp, thorough)
				sc.Desc += fmt.Sprintf("generated:%dB ", len(text))
			}
			name := fmt.Sprintf("f%d.d2", f)
			fsp := fileSpec{Name: name, Old: []byte(text)}
			if tp.Chance(1, 6, "fmt.symlink") {
				fsp.LinkTo = fmt.Sprintf("real/src%d.d2", f)
				sc.Desc += "(symlinked) "
			}
			sc.Files = append(sc.Files, fsp)
			sc.Targets = append(sc.Targets, name)
			sc.Args = append(sc.Args, name)
		}
		return sc
	}
	sc := scenario{Cmd: "render"}
	src := genDiagram(tp)
	out := "out.svg"
	if tp.Chance(1, 4, "render.subdir") {
		out = "sub/dir/out.svg"
	}
	if out == "out.svg" && tp.Chance(1, 6, "render.ascii") { // (d2 does not create missing directories for .txt)
		// the text renderer reaches the same writer by another path
		out = strings.TrimSuffix(out, ".svg") + ".txt"
	}
	sc.Files = append(sc.Files, fileSpec{Name: "in.d2", Old: []byte(src), IsInput: true})
	old := fileSpec{Name: out}
	switch tp.Draw(4, "render.old") {
	case 0:
		old.Old = []byte("<svg>previous render, short</svg>\n")
	case 1:
		old.Old = bytes.Repeat([]byte("<!-- previous render, longer than the new one -->\n"), 4000)
	case 2:
		old.Old = []byte{}
	case 3:
		old.Absent = true
	}
	if out != "out.svg" && !old.Absent && tp.Chance(1, 2, "render.nodir") {
		old.Absent = true
	}
	if !old.Absent && tp.Chance(1, 5, "render.symlink") {
		old.LinkTo = "published/final.svg"
	}
	sc.Files = append(sc.Files, old)
	sc.Targets = []string{out}
	sc.Args = []string{}
	if tp.Chance(1, 4, "render.sketch") {
		sc.Args = append(sc.Args, "--sketch")
	}
	if tp.Chance(1, 4, "render.theme") {
		sc.Args = append(sc.Args, "--theme=3")
	}
	sc.Args = append(sc.Args, "in.d2", out)
	sc.Desc = fmt.Sprintf("render %dB -> %s old=%dB absent=%v symlink=%v", len(src), out, len(old.Old), old.Absent, old.LinkTo != "")
	return sc
}

func tmpRoot() string {
	if d := os.Getenv("VSIM_TMP"); d != "" {
		return d
	}
	return os.TempDir()
}

func otherFS(dir string) string { return dir + ".tmpfs" }

func restore(dir string, sc scenario) error {
	for _, d := range []string{dir, otherFS(dir)} {
		ents, _ := os.ReadDir(d)
		for _, e := range ents {
			if err := os.RemoveAll(filepath.Join(d, e.Name())); err != nil {
				return err
			}
		}
	}
	for _, f := range sc.Files {
		if f.Absent {
			continue
		}
		p := filepath.Join(dir, f.Name)
		if err := os.MkdirAll(filepath.Dir(p), 0755); err != nil {
			return err
		}
		if f.LinkTo != "" {
			real := filepath.Join(filepath.Dir(p), f.LinkTo)
			if err := os.MkdirAll(filepath.Dir(real), 0755); err != nil {
				return err
			}
			if err := os.WriteFile(real, f.Old, 0644); err != nil {
				return err
			}
			if err := os.Symlink(f.LinkTo, p); err != nil {
				return err
			}
			continue
		}
		if err := os.WriteFile(p, f.Old, 0644); err != nil {
			return err
		}
	}
	return nil
}

type outcome struct {
	ops        []simfs.Op
	err        error
	panicked   string
	suppressed int
}

// execute runs the command once. crashAt = 0: no crash. midK > 0: the crash happens inside
// write number crashAt after midK bytes.
func execute(dir string, sc scenario, crashAt, midK int) outcome {
	fs := &simfs.FS{Root: dir, Other: otherFS(dir), CrossDevice: sc.TmpElsewhere, Record: true}
	if sc.ForeignOwner {
		fs.Foreign = map[uint64]bool{}
		filepath.Walk(dir, func(p string, info os.FileInfo, err error) error {
			if err == nil && p != dir {
				if st, ok := info.Sys().(*syscall.Stat_t); ok {
					fs.Foreign[st.Ino] = true
				}
			}
			return nil
		})
	}
	// The process's temporary directory is always a directory of its own, outside the
	// directory of the sources and outputs; whether it is another file system is the
	// scenario's layout.
	oldTmp, hadTmp := os.LookupEnv("TMPDIR")
	os.Setenv("TMPDIR", otherFS(dir))
	defer func() {
		if hadTmp {
			os.Setenv("TMPDIR", oldTmp)
		} else {
			os.Unsetenv("TMPDIR")
		}
	}()
	if crashAt > 0 {
		fs.Handler = func(op simfs.Op) simfs.Decision {
			if op.Seq != crashAt {
				return simfs.Decision{}
			}
			fs.Freeze()
			if midK > 0 && (op.Name == "write" || op.Name == "pwrite") {
				return simfs.Decision{Mode: simfs.ShortThenFail, N: midK, Err: syscall.EIO}
			}
			if op.Mutating() || (op.Name == "openat" && op.Flags&syscall.O_ACCMODE != syscall.O_RDONLY) {
				return simfs.Decision{Mode: simfs.Fail, Err: syscall.EIO}
			}
			return simfs.Decision{}
		}
	}
	p := cli.New(dir, nil, sc.Args...)
	var o outcome
	// Deterministic CreateTemp names and map orders, so that operation i of a crash run is
	// operation i of the recorded run.
	runtime.VerifSimEnable(0x48c48c48)
	simfs.Install(fs)
	func() {
		defer func() {
			if r := recover(); r != nil {
				o.panicked = fmt.Sprintf("%v\n%s", r, debug.Stack())
			}
		}()
		o.err = p.Run(context.Background())
	}()
	simfs.Uninstall()
	runtime.VerifSimDisable()
	o.ops = fs.Ops
	o.suppressed = fs.Suppressed
	return o
}

func hash64(parts ...any) uint64 {
	h := fnv.New64a()
	fmt.Fprint(h, parts...)
	return h.Sum64()
}

var (
	tmpName  = regexp.MustCompile(`/tmp-([^/]*)-[0-9]+`)
	tmpName2 = regexp.MustCompile(`([-._])[0-9]{6,}`) // os.CreateTemp's random part in any other pattern
)

func normTmp(s string) string {
	return tmpName2.ReplaceAllString(tmpName.ReplaceAllString(s, "/tmp-$1-N"), "${1}N")
}

// opKey identifies an operation; the random suffix of CreateTemp names is normalised (it
// depends on how many maps earlier code created, which process-wide caches change
// between the first and later runs).
func opKey(o simfs.Op) string {
	return fmt.Sprintf("%s|%s|%s|%d|%d", o.Name, normTmp(o.Path), normTmp(o.Path2), o.N, o.Flags)
}

type sample struct {
	Scenario    string   `json:"scenario"`
	Args        []string `json:"args"`
	Ops         []string `json:"recorded_ops"`
	CrashPoints int      `json:"crash_points_executed"`
}

func Run(cfg harness.Config, idx int, tp *tape.Tape) harness.Result {
	var res harness.Result
	sc := genScenario(tp, idx, cfg.Thorough())
	sandboxSeq++
	dir := filepath.Join(tmpRoot(), fmt.Sprintf("verifsim-crash-%d-%d", os.Getpid(), sandboxSeq))
	if err := os.MkdirAll(dir, 0755); err != nil {
		res.HarnessError = err.Error()
		return res
	}
	defer os.RemoveAll(dir)
	if rp, err := filepath.EvalSymlinks(dir); err == nil {
		dir = rp
	}
	if err := os.MkdirAll(otherFS(dir), 0755); err != nil {
		res.HarnessError = err.Error()
		return res
	}
	defer os.RemoveAll(otherFS(dir))
	res.Tracef("scenario: d2 %s   (%s)", strings.Join(sc.Args, " "), sc.Desc)

	// ---- uninterrupted run: operation list and the new content
	if err := restore(dir, sc); err != nil {
		res.HarnessError = err.Error()
		return res
	}
	dry := execute(dir, sc, 0, 0)
	if dry.panicked != "" {
		res.HarnessError = "uninterrupted run panicked: " + dry.panicked
		return res
	}
	if dry.err != nil {
		res.HarnessError = fmt.Sprintf("uninterrupted run of d2 %v failed: %v", sc.Args, dry.err)
		return res
	}
	newContent := map[string][]byte{}
	oldContent := map[string]*fileSpec{}
	changed := false
	for i := range sc.Files {
		f := &sc.Files[i]
		oldContent[f.Name] = f
	}
	for _, t := range sc.Targets {
		b, err := os.ReadFile(filepath.Join(dir, t))
		if err != nil {
			res.HarnessError = fmt.Sprintf("uninterrupted run left no %s: %v", t, err)
			return res
		}
		newContent[t] = b
		if oldContent[t].Absent || !bytes.Equal(b, oldContent[t].Old) {
			changed = true
		}
	}
	for _, o := range dry.ops {
		res.Tracef("op %s", strings.Replace(normTmp(o.String()), dir, "$SANDBOX", -1))
	}
	if !changed {
		res.Probe("no_rewrite_needed")
		res.SchedHash = hash64(sc.Cmd, sc.Desc)
		return res
	}
	res.Nontrivial = true
	res.SchedHash = hash64(sc.Cmd, sc.Desc, len(dry.ops))

	type point struct{ at, mid int }
	var points []point
	for _, o := range dry.ops {
		points = append(points, point{o.Seq, 0})
		if (o.Name == "write" || o.Name == "pwrite") && o.N >= 2 {
			seen := map[int]bool{}
			for _, k := range []int{1, o.N / 2, o.N - 1} {
				if k >= 1 && k < o.N && !seen[k] {
					seen[k] = true
					points = append(points, point{o.Seq, k})
				}
			}
		}
	}
	points = append(points, point{len(dry.ops) + 1, 0}) // killed after the last operation

	inputHash := hash64(sc.Args, sc.Desc)
	executed := 0
	simClass := map[int]string{} // crash just before op i (no partial write) -> class of the first target
	for _, pt := range points {
		if err := restore(dir, sc); err != nil {
			res.HarnessError = err.Error()
			return res
		}
		out := execute(dir, sc, pt.at, pt.mid)
		executed++
		if out.panicked != "" {
			// The dying process may well panic on EIO after its death; what counts is the disk.
			res.Probe("panic_after_crash_point")
		}
		// soundness of the enumeration: the run must have been the recorded run up to the crash point
		lim := pt.at - 1
		if lim > len(out.ops) || lim > len(dry.ops) {
			res.HarnessError = fmt.Sprintf("crash run at op %d issued only %d operations (recorded run: %d)", pt.at, len(out.ops), len(dry.ops))
			return res
		}
		for i := 0; i < lim; i++ {
			if opKey(out.ops[i]) != opKey(dry.ops[i]) {
				res.HarnessError = fmt.Sprintf("crash run diverged from the recorded run at op %d: %s vs %s", i+1, out.ops[i], dry.ops[i])
				return res
			}
		}
		var what string
		if pt.at <= len(dry.ops) {
			opS := strings.Replace(normTmp(dry.ops[pt.at-1].String()), dir, "$SANDBOX", -1)
			what = "killed just before " + opS
			if pt.mid > 0 {
				what = fmt.Sprintf("killed inside %s after %d bytes", opS, pt.mid)
				res.Fault("crash_inside_write")
			} else if dry.ops[pt.at-1].Mutating() {
				res.Fault("crash_before_mutating_op")
			} else {
				res.Fault("crash_before_readonly_op")
			}
		} else {
			what = "killed after the last operation"
			res.Fault("crash_after_last_op")
		}
		res.ExtraHashes = append(res.ExtraHashes, hash64(inputHash, pt.at, pt.mid))
		for _, t := range sc.Targets {
			b, err := os.ReadFile(filepath.Join(dir, t))
			old := oldContent[t]
			switch {
			case err != nil && os.IsNotExist(err):
				if pt.mid == 0 && t == sc.Targets[0] {
					simClass[pt.at] = "absent"
				}
				if !old.Absent {
					res.Fail("C48", "O48", "d2 %s, %s: %s no longer exists (it held %d bytes before the command)", strings.Join(sc.Args, " "), what, t, len(old.Old))
				}
			case err != nil:
				res.HarnessError = err.Error()
				return res
			case !old.Absent && bytes.Equal(b, old.Old):
				res.Probe("target_holds_old")
				if pt.mid == 0 && t == sc.Targets[0] {
					simClass[pt.at] = "old"
				}
			case bytes.Equal(b, newContent[t]):
				res.Probe("target_holds_new")
				if pt.mid == 0 && t == sc.Targets[0] {
					simClass[pt.at] = "new"
				}
			default:
				desc := fmt.Sprintf("%d bytes that are neither the previous %d bytes nor the new %d bytes", len(b), len(old.Old), len(newContent[t]))
				if len(b) == 0 {
					desc = fmt.Sprintf("nothing (empty file); previous content was %d bytes, new content is %d bytes", len(old.Old), len(newContent[t]))
				} else if bytes.HasPrefix(newContent[t], b) {
					desc = fmt.Sprintf("a %d-byte prefix of the new %d-byte content (previous content: %d bytes)", len(b), len(newContent[t]), len(old.Old))
				}
				res.Fail("C48", "O48", "d2 %s, %s: %s holds %s", strings.Join(sc.Args, " "), what, t, desc)
			}
		}
		if res.Oracle != "" {
			res.Tracef("crash point: %s", what)
			break
		}
	}
	// (The real kernel cannot be told that the two directories are different mounts, so
	// the comparison with the real binary is made for single-file-system layouts only.)
	if res.Oracle == "" && res.HarnessError == "" && !sc.TmpElsewhere && !sc.ForeignOwner && crossValidateWanted(cfg) {
		crossValidate(&res, cfg, dir, sc, dry, newContent, oldContent, simClass)
	}
	res.Evals = executed
	res.Steps = executed
	res.ProbeN("crash_points_executed", executed)
	res.Probe("cmd." + sc.Cmd)
	var ops []string
	for _, o := range dry.ops {
		ops = append(ops, strings.Replace(o.String(), dir, "$SANDBOX", -1))
	}
	res.Sample = sample{Scenario: sc.Desc, Args: sc.Args, Ops: ops, CrashPoints: executed}
	return res
}

// ---------------------------------------------------------------- cross-validation against a real kill

var crossDone int

func crossValidateWanted(cfg harness.Config) bool {
	if cfg.Extra["D2BIN"] == "" {
		return false
	}
	limit := 1
	if cfg.Thorough() {
		limit = 6
	}
	if crossDone >= limit {
		return false
	}
	crossDone++
	return true
}

type realOp struct {
	name, path string
	index      int // index among all calls of that system call name in the process (1-based)
}

var (
	straceLine        = regexp.MustCompile(`^\d+\s+(\w+)\((.*)\)\s+= (-?\d+|\?)`)
	unfinishedResumed = regexp.MustCompile(`^\d+\s+<\.\.\. \w+ resumed>(.*)$`)
	quoted            = regexp.MustCompile(`"((?:[^"\\]|\\.)*)"`)
)

// realTrace runs the real d2 binary under strace and returns its mutating file-system
// calls inside dir, in order.
func realTrace(d2bin, dir string, args []string) ([]realOp, error) {
	out := filepath.Join(os.TempDir(), fmt.Sprintf("verifsim-strace-%d.txt", os.Getpid()))
	defer os.Remove(out)
	cmd := exec.Command("strace", append([]string{"-f", "-qq", "-o", out, "-e", "trace=openat,close,write,pwrite64,renameat,renameat2,unlinkat,mkdirat,ftruncate,fchmod,fchmodat,utimensat,linkat,symlinkat", d2bin}, args...)...)
	cmd.Dir = dir
	cmd.Env = append(os.Environ(), "HOME=/nonexistent-verif-home", "BROWSER=0", "NO_COLOR=1", "TMPDIR="+otherFS(dir))
	if o, err := cmd.CombinedOutput(); err != nil {
		return nil, fmt.Errorf("strace run failed: %v: %s", err, o)
	}
	b, err := os.ReadFile(out)
	if err != nil {
		return nil, err
	}
	fds := map[string]string{}
	count := map[string]int{}
	var ops []realOp
	pending := map[string]string{} // pid -> first half of a call split by strace -f
	for _, line := range strings.Split(string(b), "\n") {
		pid := strings.SplitN(line, " ", 2)[0]
		if i := strings.Index(line, " <unfinished ...>"); i >= 0 {
			pending[pid] = line[:i]
			continue
		}
		if um := unfinishedResumed.FindStringSubmatch(line); um != nil {
			line = pending[pid] + um[1]
			delete(pending, pid)
		}
		m := straceLine.FindStringSubmatch(line)
		if m == nil {
			continue
		}
		name, argstr, ret := m[1], m[2], m[3]
		count[name]++
		var strs []string
		for _, q := range quoted.FindAllStringSubmatch(argstr, -1) {
			strs = append(strs, q[1])
		}
		firstArg := strings.TrimSpace(strings.SplitN(argstr, ",", 2)[0])
		abs := func(p string) string {
			if !filepath.IsAbs(p) {
				p = filepath.Join(dir, p)
			}
			return p
		}
		in := func(p string) bool { return strings.HasPrefix(p, dir+"/") || strings.HasPrefix(p, otherFS(dir)+"/") }
		switch name {
		case "openat":
			if len(strs) > 0 && ret != "-1" && ret != "?" {
				p := abs(strs[0])
				fds[ret] = p
				if in(p) && (strings.Contains(argstr, "O_CREAT") || strings.Contains(argstr, "O_TRUNC")) {
					ops = append(ops, realOp{"openat", p, count[name]})
				}
			}
		case "close":
			delete(fds, firstArg)
		case "write", "pwrite64", "ftruncate", "fchmod":
			if p, ok := fds[firstArg]; ok && in(p) {
				n := name
				if n == "pwrite64" {
					n = "pwrite"
				}
				ops = append(ops, realOp{n, p, count[name]})
			}
		case "renameat", "renameat2":
			if len(strs) >= 2 && (in(abs(strs[0])) || in(abs(strs[1]))) {
				ops = append(ops, realOp{"renameat", abs(strs[0]) + " -> " + abs(strs[1]), count[name]})
			}
		case "unlinkat", "mkdirat", "fchmodat", "utimensat", "linkat", "symlinkat":
			if len(strs) > 0 && in(abs(strs[0])) {
				ops = append(ops, realOp{name, abs(strs[0]), count[name]})
			}
		}
	}
	return ops, nil
}

func crossValidate(res *harness.Result, cfg harness.Config, dir string, sc scenario, dry outcome, newContent map[string][]byte, oldContent map[string]*fileSpec, simClass map[int]string) {
	if _, err := exec.LookPath("strace"); err != nil {
		res.Probe("strace_unavailable")
		return
	}
	d2bin := cfg.Extra["D2BIN"]
	if err := restore(dir, sc); err != nil {
		res.HarnessError = err.Error()
		return
	}
	real, err := realTrace(d2bin, dir, sc.Args)
	if err != nil {
		// strace not usable here (ptrace forbidden, …): the cross-validation is skipped and
		// the evidence shows it; the simulated enumeration stands on its own.
		res.Probe("strace_run_failed")
		return
	}
	// 1. the real binary's mutating calls are exactly the ones the simulation recorded
	var simOps []simfs.Op
	for _, o := range dry.ops {
		if o.Mutating() {
			simOps = append(simOps, o)
		}
	}
	norm := normTmp
	var a, b []string
	for _, o := range simOps {
		p := o.Path
		if o.Name == "renameat" {
			p = o.Path + " -> " + o.Path2
		}
		a = append(a, o.Name+" "+norm(p))
	}
	for _, o := range real {
		b = append(b, o.name+" "+norm(o.path))
	}
	if strings.Join(a, "\n") != strings.Join(b, "\n") {
		res.HarnessError = fmt.Sprintf("the real d2 binary's mutating system calls differ from the ones the simulation recorded for d2 %v\nsimulated:\n  %s\nreal (strace):\n  %s", sc.Args, strings.Join(a, "\n  "), strings.Join(b, "\n  "))
		return
	}
	res.Probe("real_syscall_trace_matches_recorded_ops")
	validated := 1
	// 2. a real SIGKILL on entry of a mutating call leaves what crash-freeze left
	target := sc.Targets[0]
	for i, ro := range real {
		sysname := ro.name
		if sysname == "pwrite" {
			sysname = "pwrite64"
		}
		if sysname == "openat" || sysname == "write" || sysname == "pwrite64" {
			// strace can only aim at "the N-th call of that name of a thread". The
			// runtime opens files and writes to its wake-up descriptors from other
			// threads, so for these two the ordinal of "our" call is not stable. The rare
			// calls (renameat, fchmod, mkdirat, unlinkat, ftruncate) are only ever ours.
			continue
		}
		if err := restore(dir, sc); err != nil {
			res.HarnessError = err.Error()
			return
		}
		cmd := exec.Command("strace", append([]string{"-f", "-qq", "-o", "/dev/null", "-e", fmt.Sprintf("inject=%s:signal=SIGKILL:when=%d", sysname, ro.index), d2bin}, sc.Args...)...)
		cmd.Dir = dir
		cmd.Env = append(os.Environ(), "HOME=/nonexistent-verif-home", "BROWSER=0", "NO_COLOR=1", "TMPDIR="+otherFS(dir))
		runErr := cmd.Run()
		if os.Getenv("VSIM_DEBUG_CV") != "" {
			fmt.Fprintf(os.Stderr, "CV kill %s #%d (%s): run err=%v args=%v\n", sysname, ro.index, ro.path, runErr, cmd.Args)
		}
		if runErr == nil {
			// strace counts "the N-th call of that name" per thread, and the Go runtime may
			// move the goroutine to another thread between two calls (it does under load):
			// the injection did not fire and the command ran to its end. Nothing to compare.
			res.Probe("real_kill_not_delivered_goroutine_changed_thread")
			continue
		}
		class := "other"
		bts, err := os.ReadFile(filepath.Join(dir, target))
		switch {
		case err != nil && os.IsNotExist(err):
			class = "absent"
		case err != nil:
			res.HarnessError = err.Error()
			return
		case !oldContent[target].Absent && bytes.Equal(bts, oldContent[target].Old):
			class = "old"
		case bytes.Equal(bts, newContent[target]):
			class = "new"
		}
		want := simClass[simOps[i].Seq]
		if class == "other" {
			res.Fail("C48", "O48", "real d2 binary killed (SIGKILL via strace) on entry of %s #%d (%s) during d2 %s: %s holds %d bytes that are neither its previous nor its new content", ro.name, ro.index, norm(ro.path), strings.Join(sc.Args, " "), target, len(bts))
			return
		}
		if class != want {
			// Both outcomes satisfy the property. The usual reason is that the injection hit
			// another occurrence of the call than the one aimed at (per-thread counting,
			// see above); it is counted and shown, and does not stop the check.
			res.Probe("real_kill_outcome_differs_from_simulated_one")
			res.Tracef("crash-freeze and a real SIGKILL differ at %s (%s) of d2 %v: simulated outcome %q, real outcome %q", ro.name, norm(ro.path), sc.Args, want, class)
			continue
		}
		validated++
	}
	res.ProbeN("traces_validated_against_impl", validated)
}
