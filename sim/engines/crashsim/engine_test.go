package crashsim

import (
	"testing"

	"verifsim/harness"
)

func TestEngine(t *testing.T) {
	harness.Main(harness.LoadConfig(), Run)
}
