// Package bundlesim decides C46: lib/imgbundler under simulator-chosen worker start /
// completion order, per-image I/O failures (local file system and simulated HTTP), stalls
// that only end by timeout, caller cancellation and cache history, compared with a
// sequential reference bundler.
package bundlesim

import (
	"bytes"
	"context"
	"encoding/base64"
	"errors"
	"fmt"
	"html"
	"io"
	"net/http"
	"net/url"
	"os"
	"path/filepath"
	"regexp"
	"runtime"
	"runtime/debug"
	"sort"
	"strings"
	"sync"
	"sync/atomic"
	"syscall"
	"testing"
	"testing/synctest"
	"time"

	"oss.terrastruct.com/d2/lib/imgbundler"
	"oss.terrastruct.com/d2/lib/verifhook"

	"verifsim/harness"
	"verifsim/sched"
	"verifsim/simfs"
	"verifsim/tape"
)

var imageRef = regexp.MustCompile(`<image href="([^"]+)"`)

type img struct {
	Href    string
	Remote  bool
	Data    bool
	Path    string // local: absolute path of the file the href resolves to
	Content []byte
	CT      string // remote: Content-Type served ("" = none)
	Kind    string // local: file | missing | dir
	NoFault bool   // never inject a failure (href cannot be recognised in the error text)
}

type faultCfg struct {
	eacces, eio, shortRead, http404, http500, netErr, stall, bodyErr, oversize, cancel bool
}

type world struct {
	sim     *sched.Sim
	res     *harness.Result
	dir     string
	imgs    map[string]*img // by href
	byPath  map[string]*img
	fc      faultCfg
	curCall int
	runOK   map[string]bool
	late    map[uint64]bool // goroutines of workers that a carried-over call left behind
	workers map[uint64]bool // every goroutine that reached worker.start so far

	mu           sync.Mutex
	outcome      map[string]string // href -> "ok" | failure kind, for the current call
	doneOrd      []string
	inflight     int
	quiet        atomic.Bool
	stalls       atomic.Int32 // requests that the simulated network leaves unanswered right now
	mostlyBroken bool
	brokenKind   int
	bigImages    bool
}

func (w *world) fault(kind string) {
	w.mu.Lock()
	w.res.Fault(kind)
	w.mu.Unlock()
}

// setOutcome records what happened to the fetch of href in the current call. A failure is
// final; "ok" replaces "in-flight" only.
type callKey struct{}

// setOutcomeCtx records what happened to a fetch unless the request belongs to an earlier
// call (a worker that a cancelled call left behind: what happens to its fetch says nothing
// about the current call).
func (w *world) setOutcomeCtx(ctx context.Context, href, o string) {
	if c, ok := ctx.Value(callKey{}).(int); ok {
		w.mu.Lock()
		cur := w.curCall
		w.mu.Unlock()
		if c != cur {
			return
		}
	}
	w.setOutcome(href, o)
}

func (w *world) setOutcome(href, o string) {
	w.mu.Lock()
	if o == "ok" {
		if w.runOK == nil {
			w.runOK = map[string]bool{}
		}
		w.runOK[href] = true // somebody (a leftover worker too) loaded it in this run
	}
	if w.late[runtime.VerifGID()] {
		// a worker that an earlier, cut-short call left behind (it may still be carrying
		// out a fault that was chosen for it back then): says nothing about this call
		w.mu.Unlock()
		return
	}
	cur, ok := w.outcome[href]
	if !ok || cur == "in-flight" || (o != "ok" && o != "in-flight" && cur == "ok") {
		w.outcome[href] = o
	}
	w.mu.Unlock()
}

func wt(on bool, w int) int {
	if on {
		return w
	}
	return 0
}

// ---- simulated file system: decisions at openat/read of image files

func (w *world) fsHandler(op simfs.Op) simfs.Decision {
	im := w.byPath[op.Path]
	if im == nil || w.quiet.Load() {
		return simfs.Decision{}
	}
	switch op.Name {
	case "openat":
		opts := []sched.Option{{"ok", 8}, {"EACCES", wt(w.fc.eacces && !im.NoFault, 1)}}
		c := w.sim.Park("fs:open:"+im.Href, opts)
		if c == 1 {
			w.fault("fs_open_eacces")
			w.setOutcome(im.Href, "EACCES")
			return simfs.Decision{Mode: simfs.Fail, Err: syscall.EACCES}
		}
		if im.Kind == "file" {
			w.setOutcome(im.Href, "ok")
		} else {
			w.setOutcome(im.Href, im.Kind)
		}
	case "read":
		opts := []sched.Option{{"ok", 8}, {"EIO", wt(w.fc.eio && !im.NoFault, 1)}, {"short", wt(w.fc.shortRead, 2)}}
		switch w.sim.Park("fs:read:"+im.Href, opts) {
		case 1:
			w.fault("fs_read_eio")
			w.setOutcome(im.Href, "EIO")
			return simfs.Decision{Mode: simfs.Fail, Err: syscall.EIO}
		case 2:
			w.fault("fs_short_read")
			n := op.N / 3
			if n < 1 {
				n = 1
			}
			return simfs.Decision{Mode: simfs.Short, N: n}
		}
	}
	return simfs.Decision{}
}

// ---- simulated HTTP

type transport struct{ w *world }

type body struct {
	w    *world
	im   *img
	ctx  context.Context
	data []byte
	off  int
	big  int64 // oversize: remaining synthetic bytes
}

func (b *body) Read(p []byte) (int, error) {
	if b.big > 0 {
		n := int64(len(p))
		if n > b.big {
			n = b.big
		}
		for i := range p[:n] {
			p[i] = 0
		}
		b.big -= n
		return int(n), nil
	}
	if err := b.ctx.Err(); err != nil {
		b.w.setOutcomeCtx(b.ctx, b.im.Href, "ctx-done")
		return 0, err
	}
	if b.off >= len(b.data) {
		b.w.setOutcomeCtx(b.ctx, b.im.Href, "ok") // only a body delivered to its end is a loaded image
		return 0, io.EOF
	}
	opts := []sched.Option{{"chunk", 8}, {"err", wt(b.w.fc.bodyErr && !b.im.NoFault, 1)}}
	if b.w.sim.Park("httpbody:"+b.im.Href, opts) == 1 {
		b.w.fault("http_body_error")
		b.w.setOutcomeCtx(b.ctx, b.im.Href, "body-error")
		return 0, errors.New("simulated connection reset mid-body")
	}
	n := (len(b.data)-b.off)/2 + 1
	if n > len(p) {
		n = len(p)
	}
	copy(p, b.data[b.off:b.off+n])
	b.off += n
	return n, nil
}

func (b *body) Close() error { return nil }

func (t transport) RoundTrip(req *http.Request) (*http.Response, error) {
	w := t.w
	var im *img
	for _, c := range w.imgs {
		if c.Remote && html.UnescapeString(c.Href) == req.URL.String() {
			im = c
		}
	}
	if im == nil {
		// try again ignoring case normalisation of scheme/host done by url.Parse
		for _, c := range w.imgs {
			if c.Remote && strings.EqualFold(html.UnescapeString(c.Href), req.URL.String()) {
				im = c
			}
		}
	}
	if im == nil {
		w.res.HarnessError = "RoundTrip for unknown URL " + req.URL.String()
		return nil, errors.New("unknown url")
	}
	ok := 8
	if w.mostlyBroken && !im.NoFault && (w.fc.http404 || w.fc.http500 || w.fc.netErr) {
		ok = 1 // a dead host: nearly every request of this run fails
	}
	opts := []sched.Option{{"200", ok}, {"404", wt(w.fc.http404 && !im.NoFault, 1)}, {"500", wt(w.fc.http500 && !im.NoFault, 1)},
		{"neterr", wt(w.fc.netErr && !im.NoFault, 1)}, {"stall", wt(w.fc.stall && !im.NoFault, 1)}, {"oversize", wt(w.fc.oversize && !im.NoFault, 1)}}
	c := w.sim.Park("http:"+im.Href, opts)
	mk := func(code int, b io.ReadCloser) *http.Response {
		h := http.Header{}
		if im.CT != "" && code == 200 {
			h.Set("Content-Type", im.CT)
		}
		return &http.Response{StatusCode: code, Status: fmt.Sprintf("%d %s", code, http.StatusText(code)), Header: h, Body: b, Request: req, Proto: "HTTP/1.1", ProtoMajor: 1, ProtoMinor: 1}
	}
	switch c {
	case 1:
		w.fault("http_404")
		w.setOutcomeCtx(req.Context(), im.Href, "404")
		return mk(404, io.NopCloser(strings.NewReader("not found"))), nil
	case 2:
		w.fault("http_500")
		w.setOutcomeCtx(req.Context(), im.Href, "500")
		return mk(500, io.NopCloser(strings.NewReader("boom"))), nil
	case 3:
		w.fault("http_transport_error")
		w.setOutcomeCtx(req.Context(), im.Href, "neterr")
		return nil, errors.New("simulated dial failure")
	case 4:
		w.fault("http_stall_until_timeout")
		w.setOutcomeCtx(req.Context(), im.Href, "stall")
		w.stalls.Add(1)
		<-req.Context().Done()
		w.stalls.Add(-1)
		return nil, req.Context().Err()
	case 5:
		w.fault("http_oversized_body")
		w.setOutcomeCtx(req.Context(), im.Href, "oversize")
		return mk(200, &body{w: w, im: im, ctx: req.Context(), big: 1<<25 + 4096}), nil
	}
	w.setOutcomeCtx(req.Context(), im.Href, "in-flight")
	return mk(200, &body{w: w, im: im, ctx: req.Context(), data: im.Content}), nil
}

// ---- workload generation

var contents = [][]byte{
	[]byte("\x89PNG\r\n\x1a\n\x00\x00\x00\rIHDR-simulated-png"),
	[]byte(`<svg xmlns="http://www.w3.org/2000/svg"><rect width="3" height="3"/></svg>`),
	[]byte(`<?xml version="1.0"?><svg xmlns="http://www.w3.org/2000/svg"></svg>`),
	[]byte("GIF89a-simulated-gif"),
	{0x00, 0x01, 0x02, 0xfe, 0xff, 0x10, 0x80},
	{},
	[]byte("plain text pretending to be an image, with <image href=\"nested.png\" inside"),
}

var cts = []string{"image/png", "image/svg+xml", "", "text/xml; charset=utf-8", "application/octet-stream", "image/gif"}

func (w *world) genImages(tp *tape.Tape, n int) []*img {
	var out []*img
	for i := 0; i < n; i++ {
		im := &img{Kind: "file"}
		kinds := []int{5, 4, 1} // local, remote, data
		if w.mostlyBroken {
			kinds = [][]int{{12, 1, 1}, {1, 12, 1}}[w.brokenKind]
		}
		kind := tp.Weighted(kinds, "img.kind")
		uniq := len(w.imgs)
		switch kind {
		case 0:
			forms := []string{"img%d.png", "pics/a%d.svg", "x%d.jpeg", "weird+(%d)[x].png", "amp&amp;%d.png", "sp ace%d.png", "img%d", "noext%d", "ABS:abs%d.gif", "q%d.png?v=1"}
			f := forms[tp.Draw(len(forms), "img.form")]
			name := fmt.Sprintf(f, uniq)
			if strings.HasPrefix(name, "ABS:") {
				name = filepath.Join(w.dir, "absdir", name[4:])
				im.Href = name
				im.Path = name
			} else {
				im.Href = name
				im.Path = filepath.Join(w.dir, html.UnescapeString(name))
			}
			im.NoFault = strings.Contains(name, " ")
			if !im.NoFault {
				exists := []int{8, 1, 1}
				if w.mostlyBroken {
					exists = []int{1, 6, 2}
				}
				switch tp.Weighted(exists, "img.exists") {
				case 1:
					im.Kind = "missing"
				case 2:
					im.Kind = "dir"
				}
			}
		case 1:
			forms := []string{"http://sim.test/i%d.png", "https://sim.test/q?a=%d&amp;b=2", "https://sim.test/noext%d", "HTTPS://sim.test/UP%d.PNG", "https://sim.test/v%d.svg", "http://sim.test/sp%%20ace%d.png"}
			im.Href = fmt.Sprintf(forms[tp.Draw(len(forms), "img.form")], uniq)
			im.Remote = true
			im.CT = cts[tp.Draw(len(cts), "img.ct")]
		case 2:
			im.Href = fmt.Sprintf("data:image/png;base64,iVBORw0KGgo%d=", uniq)
			im.Data = true
		}
		c := contents[tp.Draw(len(contents), "img.content")]
		im.Content = append(append([]byte{}, c...), []byte(fmt.Sprintf("#%d", uniq))...)
		if tp.Chance(1, 6, "img.empty") {
			im.Content = []byte{}
		} else if w.bigImages && tp.Chance(1, 3, "img.big") {
			// a large image (above 1 MiB): buffer reuse, chunked bodies and size limits only
			// show with sizes like these; the filler differs per image
			big := make([]byte, 1<<20+4096*(1+uniq%7))
			for i := range big {
				big[i] = byte('a' + (i+uniq)%23)
			}
			im.Content = append(im.Content, big...)
			w.res.Probe("large_image")
		}
		if _, dup := w.imgs[im.Href]; dup {
			continue
		}
		w.imgs[im.Href] = im
		if im.Path != "" {
			w.byPath[im.Path] = im
		}
		out = append(out, im)
	}
	return out
}

var decoys = []string{
	`<rect x="1" y="2"/>`, "\n", `<image  href="twospaces.png"`, `<IMAGE href="upper.png"`, `<image xlink:href="xlink.png"`,
	`<text>href="img0.png" &amp; more</text>`, `<image href=""`, `<image href='single.png'`, `日本語`, `<g class="x">`, `</g>`,
	`<image width="3" href="late.png"`, ` width="10" height="10" />`, `<!-- <image href= -->`,
}

func (w *world) genSVG(tp *tape.Tape, pool []*img) []byte {
	var sb bytes.Buffer
	sb.WriteString(`<svg xmlns="http://www.w3.org/2000/svg">`)
	n := len(pool)
	if n > 0 {
		n += tp.Draw(n+1, "svg.extra") // duplicates
	}
	for i := 0; i < n; i++ {
		var im *img
		if i < len(pool) {
			im = pool[i]
		} else {
			im = pool[tp.Draw(len(pool), "svg.dup")]
		}
		for d := tp.Draw(3, "svg.decoys"); d > 0; d-- {
			sb.WriteString(decoys[tp.Draw(len(decoys), "svg.decoy")])
		}
		fmt.Fprintf(&sb, `<image href="%s" width="5" />`, im.Href)
	}
	for d := tp.Draw(3, "svg.decoys"); d > 0; d-- {
		sb.WriteString(decoys[tp.Draw(len(decoys), "svg.decoy")])
	}
	sb.WriteString(`</svg>`)
	return sb.Bytes()
}

func (w *world) materialise() error {
	w.quiet.Store(true) // the harness's own file operations are not fault points
	defer w.quiet.Store(false)
	for _, im := range w.imgs {
		if im.Path == "" {
			continue
		}
		os.RemoveAll(im.Path)
		switch im.Kind {
		case "file":
			if err := os.MkdirAll(filepath.Dir(im.Path), 0755); err != nil {
				return err
			}
			if err := os.WriteFile(im.Path, im.Content, 0644); err != nil {
				return err
			}
		case "dir":
			if err := os.MkdirAll(im.Path, 0755); err != nil {
				return err
			}
		}
	}
	return nil
}

// ---- reference model

func eligible(href string, remoteCall bool) bool {
	if strings.HasPrefix(href, "data:") {
		return false
	}
	u, err := url.Parse(html.UnescapeString(href))
	isRemote := err == nil && (strings.EqualFold(u.Scheme, "http") || strings.EqualFold(u.Scheme, "https"))
	return isRemote == remoteCall
}

type nullLog struct{}

func (nullLog) Debug(string) {}
func (nullLog) Info(string)  {}
func (nullLog) Error(string) {}

func acceptableMIME(got string, im *img) bool {
	if got == "" || strings.ContainsAny(got, "\"<>") {
		return false
	}
	if im.Remote && im.CT != "" {
		want := strings.Replace(im.CT, "text/xml", "image/svg+xml", 1)
		if want == "application/octet-stream" && bytes.Contains(im.Content, []byte("<svg")) {
			want = "image/svg+xml"
		}
		return got == im.CT || got == want
	}
	return true
}

// checkOutput walks input and output in lock step. want[href] = content the data URI must
// carry; hrefs absent from want must be unchanged. mayKeep: replaced-or-unchanged are both
// fine (cancelled / timed-out calls), but then consistently for all occurrences of a href.
func checkOutput(in, out []byte, imgs map[string]*img, want map[string][]byte, mayKeep bool) string {
	pos := 0
	o := 0
	state := map[string]string{}
	for _, m := range imageRef.FindAllSubmatchIndex(in, -1) {
		lit := in[pos:m[0]]
		if !bytes.HasPrefix(out[o:], lit) {
			return fmt.Sprintf("bytes outside image references changed near input offset %d: want %q, got %q", pos, clip(lit), clip(out[o:]))
		}
		o += len(lit)
		href := string(in[m[2]:m[3]])
		orig := in[m[0]:m[1]]
		content, repl := want[href]
		kept := bytes.HasPrefix(out[o:], orig) && (len(out) == o+len(orig) || true)
		const pre = `<image href="data:`
		if repl && bytes.HasPrefix(out[o:], []byte(pre)) && !strings.HasPrefix(href, "data:") {
			rest := out[o+len(pre):]
			semi := bytes.Index(rest, []byte(";base64,"))
			if semi < 0 {
				return fmt.Sprintf("reference %q: malformed data URI: %q", href, clip(out[o:]))
			}
			mime := string(rest[:semi])
			rest = rest[semi+len(";base64,"):]
			q := bytes.IndexByte(rest, '"')
			if q < 0 {
				return fmt.Sprintf("reference %q: unterminated data URI", href)
			}
			dec, err := base64.StdEncoding.DecodeString(string(rest[:q]))
			if err != nil {
				return fmt.Sprintf("reference %q: data URI is not valid base64: %v", href, err)
			}
			if !bytes.Equal(dec, content) {
				return fmt.Sprintf("reference %q: data URI carries %d bytes %q, want the image's content %d bytes %q", href, len(dec), clip(dec), len(content), clip(content))
			}
			if !acceptableMIME(mime, imgs[href]) {
				return fmt.Sprintf("reference %q: data URI has MIME type %q (served Content-Type %q)", href, mime, imgs[href].CT)
			}
			o += len(pre) + semi + len(";base64,") + q + 1
			if s, ok := state[href]; ok && s != "replaced" {
				return fmt.Sprintf("reference %q replaced in one place and kept in another", href)
			}
			state[href] = "replaced"
		} else if kept {
			if repl && !mayKeep {
				return fmt.Sprintf("eligible reference %q (occurrence at input offset %d) was loaded successfully but not replaced by a data URI", href, m[0])
			}
			o += len(orig)
			if s, ok := state[href]; ok && s != "kept" {
				return fmt.Sprintf("reference %q replaced in one place and kept in another", href)
			}
			state[href] = "kept"
		} else {
			return fmt.Sprintf("reference %q at input offset %d: output has %q", href, m[0], clip(out[o:]))
		}
		pos = m[1]
	}
	if !bytes.Equal(in[pos:], out[o:]) {
		return fmt.Sprintf("trailing bytes changed: want %q, got %q", clip(in[pos:]), clip(out[o:]))
	}
	return ""
}

func clip(b []byte) string {
	if len(b) > 120 {
		return string(b[:120]) + "…"
	}
	return string(b)
}

// ---- the run

type callSpec struct {
	Remote bool
	Cache  bool
	SVG    []byte
}

type sample struct {
	Images  int      `json:"images"`
	Calls   []string `json:"calls"`
	Done    []string `json:"completion_order"`
	Failed  []string `json:"failed"`
	Steps   int      `json:"steps"`
	SimTime string   `json:"simulated_time"`
}

var sandboxSeq int
var lastStacks []string

func Run(t *testing.T, cfg harness.Config, idx int, tp *tape.Tape) (res harness.Result) {
	sandboxSeq++
	dir := filepath.Join(os.TempDir(), fmt.Sprintf("verifsim-bundle-%d-%d", os.Getpid(), sandboxSeq))
	if err := os.MkdirAll(dir, 0755); err != nil {
		res.HarnessError = err.Error()
		return
	}
	defer os.RemoveAll(dir)
	if rp, err := filepath.EvalSymlinks(dir); err == nil {
		dir = rp
	}
	func() {
		defer func() {
			if p := recover(); p != nil {
				msg := fmt.Sprint(p)
				if strings.Contains(msg, "deadlock") {
					res.Fail("C46", "O46.3", "goroutines of the bundler are blocked forever after the call returned: %s\n%s", msg, strings.Join(sched.AllBubbleGoroutines(), "\n\n"))
					return
				}
				res.HarnessError = fmt.Sprintf("panic: %v\n%s", p, debug.Stack())
			}
		}()
		synctest.Test(t, func(t *testing.T) { runInBubble(cfg, idx, tp, dir, &res) })
	}()
	return
}

func runInBubble(cfg harness.Config, idx int, tp *tape.Tape, dir string, res *harness.Result) {
	sim := sched.New(tp)
	sim.MaxSteps = 3000
	sim.Norm = func(k string) string { return strings.Replace(k, dir, "$SANDBOX", -1) }
	salt := uint64(tp.Draw(1<<30, "runtime.salt"))
	runtime.VerifSimEnable(salt + 1)
	defer runtime.VerifSimDisable()
	w := &world{sim: sim, res: res, dir: dir, imgs: map[string]*img{}, byPath: map[string]*img{}}

	// swarm configuration
	w.fc = faultCfg{
		eacces: tp.Chance(1, 2, "cfg.eacces"), eio: tp.Chance(1, 2, "cfg.eio"), shortRead: tp.Chance(1, 2, "cfg.short"),
		http404: tp.Chance(1, 2, "cfg.404"), http500: tp.Chance(1, 3, "cfg.500"), netErr: tp.Chance(1, 2, "cfg.neterr"),
		stall: tp.Chance(1, 4, "cfg.stall"), bodyErr: tp.Chance(1, 2, "cfg.bodyerr"),
		oversize: cfg.Thorough() && tp.Chance(1, 40, "cfg.oversize"), cancel: tp.Chance(1, 5, "cfg.cancel"),
	}
	sizes := []int{0, 1, 2, 3, 3, 2, 5, 8, 17, 24, 40}
	k := sizes[tp.Draw(len(sizes), "cfg.k")]
	w.bigImages = tp.Chance(1, 5, "cfg.bigimages")
	if w.bigImages && k > 8 {
		k = 8
	}
	// A document full of dead references (a moved asset directory, a dead host): more
	// references fail in one call than there are workers.
	w.mostlyBroken = k >= 17 && tp.Chance(1, 2, "cfg.mostlybroken")
	if w.mostlyBroken {
		w.brokenKind = tp.Draw(2, "cfg.brokenkind") // nearly all references local, or nearly all remote
		res.Probe("run_with_mostly_unloadable_references")
	}
	pool := w.genImages(tp, k)
	ncalls := 1 + tp.Weighted([]int{5, 3, 1}, "cfg.calls")
	cacheOn := tp.Chance(1, 2, "cfg.cache")
	sim.TimeWeight = 1
	sim.ClassWeight["worker.start"] = 1 + tp.Draw(12, "cfg.w.start")
	sim.ClassWeight["worker.done"] = 1 + tp.Draw(12, "cfg.w.done")
	sim.ClassWeight["fs"] = 1 + tp.Draw(12, "cfg.w.fs")
	sim.ClassWeight["http"] = 1 + tp.Draw(12, "cfg.w.http")
	sim.ClassWeight["httpbody"] = 1 + tp.Draw(12, "cfg.w.body")
	sim.ClassWeight["actor"] = 1

	var calls []callSpec
	for c := 0; c < ncalls; c++ {
		cs := callSpec{Remote: tp.Chance(1, 2, "call.remote"), Cache: cacheOn}
		if c > 0 && tp.Chance(1, 2, "call.moreimgs") {
			pool = append(pool, w.genImages(tp, 1+tp.Draw(3, "call.nmore"))...)
		}
		cs.SVG = w.genSVG(tp, pool)
		calls = append(calls, cs)
	}
	if err := w.materialise(); err != nil {
		res.HarnessError = err.Error()
		return
	}

	imgbundler.VerifResetCache()
	imgbundler.VerifSetTransport(transport{w})
	// A worker is known by the href it works on (its goroutine id depends on how many
	// goroutines libraries happened to start lazily in this process before).
	var nameMu sync.Mutex
	gname := map[uint64]string{}
	verifhook.YieldFn = func(point string, arg any) {
		if point == "worker.start" {
			nameMu.Lock()
			gname[runtime.VerifGID()] = fmt.Sprint(arg)
			nameMu.Unlock()
			w.mu.Lock()
			if w.workers == nil {
				w.workers = map[uint64]bool{}
			}
			w.workers[runtime.VerifGID()] = true
			w.mu.Unlock()
		}
		sim.Yield(point + ":" + fmt.Sprint(arg))
	}
	verifhook.TraceFn = nil
	fs := &simfs.FS{Root: dir, Handler: w.fsHandler}
	simfs.Install(fs)
	// imgbundler's own mutexes are the simulator's (sched.MutexSim): a worker can lose the
	// CPU right before it takes the error-list mutex and while it waits for it.
	msim := &sched.MutexSim{Sim: sim, Name: func() string {
		nameMu.Lock()
		defer nameMu.Unlock()
		if n, ok := gname[runtime.VerifGID()]; ok {
			return n
		}
		return "caller"
	}}
	uninstallMutexes := msim.Install()
	sim.ClassWeight["lk"] = 1 + tp.Draw(12, "cfg.w.lock")
	sim.ClassWeight["lw"] = 1
	defer func() {
		uninstallMutexes()
		res.ProbeN("imgbundler_mutex_lock_attempts_scheduled", int(msim.Attempts.Load()))
		simfs.Uninstall()
		verifhook.YieldFn = nil
		imgbundler.VerifSetTransport(nil)
	}()

	modelCache := map[string][]byte{}
	smp := sample{Images: len(w.imgs)}
	inputPath := filepath.Join(dir, "index.d2")

	// Carry-over (a third of the runs that cancel): workers that a cancelled or timed-out
	// call left behind are NOT run to completion before the next call starts; they finish
	// whenever the scheduler lets them, side by side with the next call's workers. From
	// then on nothing fails and nothing changes, so the next calls have exactly one
	// correct result: whatever a leftover worker does must not leak into them.
	carryOver := len(calls) > 1 && w.fc.cancel && tp.Chance(1, 3, "cfg.carryover")
	calm := false
	for ci, cs := range calls {
		w.mu.Lock()
		w.outcome = map[string]string{}
		w.doneOrd = nil
		w.curCall = ci
		w.mu.Unlock()
		// images may change between calls (history): with the cache on the first
		// successful fetch must keep being served.
		if ci > 0 && !calm && tp.Chance(1, 2, "call.mutate") {
			for _, im := range pool {
				if !im.Data && tp.Chance(1, 3, "call.mutate.one") {
					im.Content = append([]byte(fmt.Sprintf("v%d:", ci)), im.Content...)
				}
			}
			if err := w.materialise(); err != nil {
				res.HarnessError = err.Error()
				return
			}
		}
		ctx, cancel := context.WithCancel(context.WithValue(context.Background(), callKey{}, ci))
		type ret struct {
			out []byte
			err error
			pan string
			at  time.Duration
		}
		done := make(chan ret, 1)
		in := append([]byte(nil), cs.SVG...)
		startT := sim.Now()
		go func() {
			defer func() {
				if p := recover(); p != nil {
					done <- ret{pan: fmt.Sprintf("%v\n%s", p, debug.Stack())}
				}
			}()
			var out []byte
			var err error
			if cs.Remote {
				out, err = imgbundler.BundleRemote(ctx, nullLog{}, in, cs.Cache)
			} else {
				out, err = imgbundler.BundleLocal(ctx, nullLog{}, inputPath, in, cs.Cache)
			}
			done <- ret{out: out, err: err, at: sim.Now()}
		}()
		cancelled := false
		if w.fc.cancel && !calm && tp.Chance(1, 2, "call.cancel") {
			go func() {
				sim.Park("actor:cancel", []sched.Option{{"cancel", 1}})
				cancelled = true
				w.fault("caller_cancelled")
				cancel()
			}()
		}
		sim.Logf("call %d: remote=%v cache=%v refs=%d", ci, cs.Remote, cs.Cache, len(imageRef.FindAll(cs.SVG, -1)))
		var r ret
		got := false
		idleAt := time.Duration(-1)
		for !got {
			sim.Quiesce()
			select {
			case r = <-done:
				got = true
				continue
			default:
			}
			if sim.Steps > sim.MaxSteps {
				res.Fail("C46", "O46.3", "call %d did not return within %d scheduler steps and %v of simulated time", ci, sim.MaxSteps, sim.Now()-startT)
				sim.Drain()
				cancel()
				r = <-done
				got = true
				break
			}
			if len(sim.ParkedKeys()) == 0 && w.stalls.Load() == 0 && idleAt < 0 {
				// Quiescent, nothing held at a scheduling point, no request being left
				// unanswered: nothing of this call is in flight anywhere, and still it has
				// not returned. Only time can move now.
				idleAt = sim.Now() - startT
			}
			if !sim.Step(true, func(k string) bool { return true }) {
				// nothing parked, nothing to wait for but time
				sim.Advance(time.Minute)
			}
		}
		elapsed := r.at - startT // stamped by the caller goroutine at the instant of return
		// Release a pending cancel actor and let workers that outlive a cancelled or
		// timed-out call finish now, so that they cannot be confused with the next call's.
		cancel()
		if carryOver && ci < len(calls)-1 && (cancelled || elapsed >= 5*time.Minute) {
			calm = true
			w.fc = faultCfg{shortRead: w.fc.shortRead}
			w.mu.Lock()
			if w.late == nil {
				w.late = map[uint64]bool{}
			}
			for g := range w.workers {
				w.late[g] = true
			}
			w.mu.Unlock()
			res.Probe("leftover_workers_carried_into_the_next_call")
		} else {
			sim.Flush()
		}
		if r.pan != "" {
			res.Fail("C46", "O46.3", "call %d panicked: %s", ci, r.pan)
		}
		if res.Oracle != "" || res.HarnessError != "" {
			break
		}

		// ---- reference model for this call
		w.mu.Lock()
		outcome := w.outcome
		w.mu.Unlock()
		want := map[string][]byte{}
		var failed []string
		seen := map[string]bool{}
		nElig := 0
		for _, m := range imageRef.FindAllSubmatch(cs.SVG, -1) {
			href := string(m[1])
			if seen[href] {
				continue
			}
			seen[href] = true
			if !eligible(href, cs.Remote) {
				continue
			}
			nElig++
			im := w.imgs[href]
			if im == nil {
				continue // decoy that matches the pattern: no file behind it
			}
			if c, ok := modelCache[href]; ok && cs.Cache {
				want[href] = c
				res.Probe("cache_hit_expected")
				continue
			}
			oc, touched := outcome[href]
			w.mu.Lock()
			loadedBefore := w.runOK[href]
			w.mu.Unlock()
			switch {
			case !touched && calm && cs.Cache && loadedBefore:
				// carry-over runs: a leftover worker of an earlier call loaded the image
				// (with the cache on it is cached now) and this call did not have to fetch
				// it; nothing changes in such runs, so the content is the image's
				want[href] = im.Content
				modelCache[href] = im.Content
				res.Probe("cache_hit_through_a_leftover_worker")
			case !touched:
				// never fetched: only legitimate when the call was cut short
				failed = append(failed, href+" (never fetched)")
			case oc == "ok":
				want[href] = im.Content
				if cs.Cache {
					modelCache[href] = im.Content
				}
			default:
				failed = append(failed, href)
			}
		}
		timedOut := elapsed >= 5*time.Minute
		cutShort := cancelled || timedOut
		if idleAt >= 0 && res.Oracle == "" {
			// Progress once faults stop: no worker was held at a scheduling point, no request
			// was stalled, no cancellation was pending - whatever the call still waited for
			// was inside the bundler itself.
			res.Fail("C46", "O46.3", "call %d (remote=%v): %v after its start nothing of the call was in flight any more (no worker at a scheduling point, no unanswered request), yet it returned only at %v: the bundler waited for itself (error: %v)", ci, cs.Remote, idleAt, elapsed, r.err)
		}
		if timedOut {
			res.Probe("global_timeout_reached")
		}
		// decoys that match the pattern but have no image behind them fail to load
		var decoyFails []string
		for href := range seen {
			if w.imgs[href] == nil && eligible(href, cs.Remote) {
				decoyFails = append(decoyFails, href)
			}
		}

		if msg := checkOutput(cs.SVG, r.out, w.imgs, want, cutShort); msg != "" {
			res.Fail("C46", "O46.1", "call %d (remote=%v cache=%v cancelled=%v): %s", ci, cs.Remote, cs.Cache, cancelled, msg)
		}
		// O46.4 is part of the model (want comes from the cache history); name it when that is what failed
		if res.Oracle == "O46.1" && cs.Cache && ci > 0 && strings.Contains(res.Msg, "data URI carries") {
			res.Oracle = "O46.4"
		}
		expectFail := map[string]bool{}
		for _, f := range failed {
			expectFail[strings.TrimSuffix(f, " (never fetched)")] = true
		}
		for _, f := range decoyFails {
			expectFail[f] = true
		}
		if len(expectFail) > 16 {
			res.Probe("calls_with_more_unloadable_references_than_workers")
		}
		if !cutShort {
			for _, f := range failed {
				if strings.HasSuffix(f, " (never fetched)") {
					res.Fail("C46", "O46.1", "call %d: eligible reference %q was never fetched although the call was neither cancelled nor timed out", ci, strings.TrimSuffix(f, " (never fetched)"))
				}
			}
			if len(expectFail) == 0 {
				if r.err != nil {
					res.Fail("C46", "O46.2", "call %d: every eligible image loaded but an error was returned: %v", ci, r.err)
				}
			} else {
				if r.err == nil {
					res.Fail("C46", "O46.2", "call %d: images %v could not be loaded but no error was returned", ci, keys(expectFail))
				} else {
					named := namedHrefs(r.err.Error())
					var exp []string
					for h := range expectFail {
						exp = append(exp, h)
					}
					sort.Strings(exp)
					sort.Strings(named)
					if strings.Join(exp, " ") != strings.Join(named, " ") {
						res.Fail("C46", "O46.2", "call %d: error names %q, but exactly %q could not be loaded (error: %v)", ci, named, exp, r.err)
					}
				}
			}
		} else {
			res.Probe("call_cut_short")
			if r.err == nil && len(expectFail) > 0 {
				res.Fail("C46", "O46.3", "call %d was cancelled/timed out with unloaded images %v but returned no error", ci, keys(expectFail))
			}
			if timedOut && elapsed > 5*time.Minute+2*time.Minute {
				res.Fail("C46", "O46.3", "call %d returned only after %v of simulated time (global timeout is 5 minutes)", ci, elapsed)
			}
		}
		w.mu.Lock()
		smp.Done = append(smp.Done, strings.Join(w.doneOrd, ","))
		w.mu.Unlock()
		smp.Calls = append(smp.Calls, fmt.Sprintf("remote=%v cache=%v eligible=%d failed=%d cut=%v elapsed=%v", cs.Remote, cs.Cache, nElig, len(expectFail), cutShort, elapsed))
		for h := range expectFail {
			smp.Failed = append(smp.Failed, h)
		}
		// reach measure for small k
		if nElig <= 3 && !cutShort && nElig > 0 {
			var fl []string
			for h := range expectFail {
				fl = append(fl, h)
			}
			sort.Strings(fl)
			res.Probe(fmt.Sprintf("reach.k%d", nElig))
		}
		if res.Oracle != "" {
			break
		}
	}

	// ---- end of run: everything must wind down (leak oracle)
	sim.Drain()
	sim.Quiesce()
	time.Sleep(10 * time.Minute) // let every timer of the run fire
	sim.Quiesce()
	if res.Oracle == "" {
		for _, g := range sched.BubbleGoroutines() {
			if strings.Contains(g, "lib/imgbundler") {
				res.Fail("C46", "O46.3", "a goroutine of the bundler is still alive 10 simulated minutes after the last call returned:\n%s", g)
				break
			}
		}
	}
	sort.Strings(smp.Failed)
	smp.Steps = sim.Steps
	smp.SimTime = sim.Now().String()
	res.Sample = smp
	res.Steps = sim.Steps
	res.SimSeconds = sim.Now().Seconds()
	res.SchedHash = sim.SchedHash()
	res.Nontrivial = len(w.imgs) >= 2 || len(res.Faults) > 0
	for _, l := range sim.Trace() {
		res.Trace = append(res.Trace, strings.Replace(l, dir, "$SANDBOX", -1))
	}
	res.Probe(fmt.Sprintf("images.%02d", bucket(len(w.imgs))))
}

func bucket(n int) int {
	switch {
	case n <= 3:
		return n
	case n <= 8:
		return 8
	case n <= 16:
		return 16
	default:
		return 40
	}
}

func keys(m map[string]bool) []string {
	var out []string
	for k := range m {
		out = append(out, k)
	}
	sort.Strings(out)
	return out
}

// namedHrefs extracts the list the bundler's error carries: "...: [h1 h2 h3]".
func namedHrefs(msg string) []string {
	i := strings.Index(msg, "[")
	j := strings.LastIndex(msg, "]")
	if i < 0 || j < i {
		return nil
	}
	return strings.Fields(msg[i+1 : j])
}
