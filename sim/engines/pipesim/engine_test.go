package pipesim

import (
	"testing"

	"verifsim/harness"
	"verifsim/tape"
)

func TestEngine(t *testing.T) {
	harness.Main(harness.LoadConfig(), func(cfg harness.Config, idx int, tp *tape.Tape) harness.Result {
		return Run(t, cfg, idx, tp)
	})
}

func TestReference(t *testing.T) {
	if err := ReferenceMain(); err != nil {
		t.Fatal(err)
	}
}
