// Package pipesim decides C08 and C25: the compile (C08) and compile-layout-render (C25)
// pipeline must produce the same result for the same input and options whenever, wherever
// and next to whatever it runs. A session executes several copies of a few task specs as
// caller tasks whose stages the simulator interleaves (one task runs at a time; the tape
// picks which), under a runtime seam that makes every map iteration order and select
// choice a function of the tape. Every execution of a spec must equal every other one,
// and must equal a reference computed by a separate process under another seed with no
// neighbours.
package pipesim

import (
	"context"
	"crypto/sha256"
	"encoding/hex"
	"encoding/json"
	"fmt"
	"io/fs"
	"os"
	"os/exec"
	"path/filepath"
	"runtime"
	"runtime/debug"
	"sort"
	"strings"
	"sync"
	"testing"
	"time"

	"oss.terrastruct.com/d2/d2compiler"
	"oss.terrastruct.com/d2/d2graph"
	"oss.terrastruct.com/d2/d2layouts/d2dagrelayout"
	"oss.terrastruct.com/d2/d2layouts/d2elklayout"
	"oss.terrastruct.com/d2/d2lib"
	"oss.terrastruct.com/d2/d2renderers/d2fonts"
	"oss.terrastruct.com/d2/d2renderers/d2svg"
	"oss.terrastruct.com/d2/d2target"
	"oss.terrastruct.com/d2/lib/textmeasure"
	"oss.terrastruct.com/util-go/go2"

	"verifsim/corpus"
	"verifsim/d2gen"
	"verifsim/harness"
	"verifsim/sched"
	"verifsim/tape"
)

type Spec struct {
	Name   string            `json:"name"`
	Script []byte            `json:"script"` // bytes, not a string: JSON would mangle invalid UTF-8
	Files  map[string][]byte `json:"files,omitempty"`
	Render bool              `json:"render"`
	Layout string            `json:"layout"`
	Sketch bool              `json:"sketch"`
	Theme  int64             `json:"theme"`
	Dark   int64             `json:"dark"` // -1: none
	Pad    int64             `json:"pad"`  // -1: default
	Center bool              `json:"center"`
}

func (s Spec) Key() string {
	b, _ := json.Marshal(s)
	h := sha256.Sum256(b)
	return hex.EncodeToString(h[:8])
}

type Output struct {
	Hash string `json:"hash"`
	Len  int    `json:"len"`
	Err  string `json:"err,omitempty"`
	Body string `json:"body,omitempty"`
}

type memFS struct {
	files map[string][]byte
	park  func(string)
}

type memFile struct {
	*strings.Reader
}

func (memFile) Stat() (fs.FileInfo, error) { return nil, fmt.Errorf("stat unsupported") }
func (memFile) Close() error               { return nil }

func (m memFS) Open(name string) (fs.File, error) {
	if m.park != nil {
		m.park("import:" + filepath.Base(name))
	}
	c, ok := m.files[filepath.Base(name)]
	if !ok {
		return nil, &fs.PathError{Op: "open", Path: name, Err: fs.ErrNotExist}
	}
	return memFile{strings.NewReader(string(c))}, nil
}

// Execute runs one spec to completion; park (may be nil) is called between stages.
func Execute(sp Spec, park func(stage string)) (out Output) {
	if park == nil {
		park = func(string) {}
	}
	var body string
	defer func() {
		if p := recover(); p != nil {
			out.Err = fmt.Sprintf("panic: %v", p)
			body = out.Err + "\n" + firstFrames(debug.Stack())
		}
		h := sha256.Sum256([]byte(body + "\x00" + out.Err))
		out.Hash = hex.EncodeToString(h[:])
		out.Len = len(body)
		out.Body = body
	}()
	var fsys fs.FS
	if sp.Files != nil {
		fsys = memFS{files: sp.Files, park: park}
	}
	if !sp.Render {
		park("compile")
		g, _, err := d2compiler.Compile("index.d2", strings.NewReader(string(sp.Script)), &d2compiler.CompileOptions{FS: fsys})
		if err != nil {
			out.Err = err.Error()
			return
		}
		b, err := d2graph.SerializeGraph(g)
		if err != nil {
			out.Err = "serialize: " + err.Error()
			return
		}
		body = string(b)
		return
	}
	ruler, err := textmeasure.NewRuler()
	if err != nil {
		out.Err = err.Error()
		return
	}
	layout := sp.Layout
	resolver := func(engine string) (d2graph.LayoutGraph, error) {
		return func(ctx context.Context, g *d2graph.Graph) error {
			park("layout")
			var err error
			if engine == "elk" {
				err = d2elklayout.DefaultLayout(ctx, g)
			} else {
				err = d2dagrelayout.DefaultLayout(ctx, g)
			}
			return err
		}, nil
	}
	ro := &d2svg.RenderOpts{ThemeID: go2.Pointer(sp.Theme), Sketch: go2.Pointer(sp.Sketch), Center: go2.Pointer(sp.Center)}
	if sp.Dark >= 0 {
		ro.DarkThemeID = go2.Pointer(sp.Dark)
	}
	if sp.Pad >= 0 {
		ro.Pad = go2.Pointer(sp.Pad)
	}
	park("compile")
	diagram, _, err := d2lib.Compile(context.Background(), string(sp.Script), &d2lib.CompileOptions{
		Ruler: ruler, LayoutResolver: resolver, Layout: &layout, FS: fsys, InputPath: "index.d2",
	}, ro)
	if err != nil {
		out.Err = err.Error()
		return
	}
	var sb strings.Builder
	var walk func(d *d2target.Diagram, path string) error
	walk = func(d *d2target.Diagram, path string) error {
		park("render")
		svg, err := d2svg.Render(d, ro)
		if err != nil {
			return fmt.Errorf("%s: %w", path, err)
		}
		fmt.Fprintf(&sb, "<!-- board %s -->\n", path)
		sb.Write(svg)
		for _, l := range d.Layers {
			if err := walk(l, path+".layers."+l.Name); err != nil {
				return err
			}
		}
		for _, l := range d.Scenarios {
			if err := walk(l, path+".scenarios."+l.Name); err != nil {
				return err
			}
		}
		for _, l := range d.Steps {
			if err := walk(l, path+".steps."+l.Name); err != nil {
				return err
			}
		}
		return nil
	}
	if err := walk(diagram, "root"); err != nil {
		out.Err = err.Error()
	}
	body = sb.String()
	return
}

func firstFrames(b []byte) string {
	lines := strings.Split(string(b), "\n")
	var keep []string
	for _, l := range lines {
		if strings.Contains(l, "oss.terrastruct.com/d2/") && !strings.Contains(l, "0x") {
			keep = append(keep, strings.TrimSpace(l))
		}
		if len(keep) >= 4 {
			break
		}
	}
	return strings.Join(keep, " <- ")
}

var (
	corpusOnce sync.Once
	corp       []corpus.Entry
)

func loadCorpus() []corpus.Entry {
	corpusOnce.Do(func() {
		for _, e := range corpus.Load() {
			if strings.Contains(e.Name, "d2chaos") {
				continue
			}
			corp = append(corp, e)
		}
	})
	return corp
}

func drawSpec(tp *tape.Tape, idx int, render, thorough bool, first bool) Spec {
	c := loadCorpus()
	var sp Spec
	sp.Render = render
	maxLen := 2500
	if thorough {
		maxLen = 20000
	}
	if !render {
		maxLen = 200000
	}
	if tp.Chance(1, 3, "spec.generated") {
		scr, files := d2gen.Script(tp)
		sp.Script, sp.Files = []byte(scr), toBytes(files)
		sp.Name = "generated"
	} else {
		var e corpus.Entry
		for try := 0; try < 20; try++ {
			if first && try == 0 {
				e = c[idx%len(c)]
			} else {
				e = c[tp.Draw(len(c), "spec.pick")]
			}
			if len(e.Text) <= maxLen {
				break
			}
		}
		if len(e.Text) > maxLen {
			e = corpus.Entry{Name: "fallback", Text: "a -> b -> c\n"}
		}
		sp.Script, sp.Files, sp.Name = []byte(e.Text), toBytes(e.Files), e.Name
	}
	sp.Layout = "dagre"
	sp.Dark, sp.Pad = -1, -1
	if render {
		if tp.Chance(1, 10, "spec.elk") {
			sp.Layout = "elk"
		}
		sp.Sketch = tp.Chance(1, 5, "spec.sketch")
		themes := []int64{0, 1, 3, 4, 5, 6, 8, 100, 101, 200, 300, 301}
		if tp.Chance(1, 3, "spec.theme") {
			sp.Theme = themes[tp.Draw(len(themes), "spec.themeid")]
		}
		if tp.Chance(1, 6, "spec.dark") {
			sp.Dark = 200
		}
		if tp.Chance(1, 6, "spec.pad") {
			sp.Pad = int64(tp.Draw(200, "spec.padv"))
		}
		sp.Center = tp.Chance(1, 8, "spec.center")
	}
	return sp
}

type sample struct {
	Profile    string   `json:"profile"`
	Specs      []string `json:"specs"`
	Executions int      `json:"executions"`
	Order      []string `json:"stage_interleaving"`
	MapRands   uint64   `json:"map_randoms_drawn_from_the_seam"`
}

func Run(t *testing.T, cfg harness.Config, idx int, tp *tape.Tape) (res harness.Result) {
	render := cfg.Property == "C25"
	prop := "C08"
	o1, o2 := "O08.1", "O08.2"
	if render {
		prop, o1, o2 = "C25", "O25.1", "O25.2"
	}
	nspec := 1 + tp.Weighted([]int{3, 4, 2}, "session.nspec")
	var specs []Spec
	for i := 0; i < nspec; i++ {
		specs = append(specs, drawSpec(tp, idx, render, cfg.Thorough(), i == 0))
	}
	if tp.Chance(1, 5, "session.family") {
		// a family: different programs over the same importable files
		scripts, files := d2gen.Family(tp)
		base := drawSpec(tp, idx, render, cfg.Thorough(), false)
		for i, scr := range scripts {
			sp := base
			sp.Name = fmt.Sprintf("family-member-%d", i)
			sp.Script, sp.Files = []byte(scr), toBytes(files)
			specs = append(specs, sp)
		}
	}
	type exec struct {
		spec int
		out  Output
		done bool
	}
	var execs []*exec
	for i := range specs {
		reps := 2 + tp.Draw(2, "session.reps")
		for r := 0; r < reps; r++ {
			execs = append(execs, &exec{spec: i})
		}
	}
	fontTask := tp.Chance(1, 4, "session.fonttask")
	salt := uint64(tp.Draw(1<<30, "runtime.salt"))
	var order []string
	var mapRands uint64

	// No synctest bubble here: the pipeline has no timers, and a background clock goroutine
	// of a dependency (regexp2, used by the syntax highlighter) must not be born in one.
	func() {
		defer func() {
			if p := recover(); p != nil {
				res.HarnessError = fmt.Sprintf("panic: %v\n%s", p, debug.Stack())
			}
		}()
		sim := sched.NewSequential(tp)
		runtime.VerifSimEnable(salt + 1)
		defer runtime.VerifSimDisable()
		m0, _ := runtime.VerifSimStats()
		var mu sync.Mutex
		remaining := len(execs)
		started := 0
		for i, e := range execs {
			i, e := i, e
			started++
			go func() {
				defer sim.TaskDone()
				park := func(stage string) { sim.Yield(fmt.Sprintf("task%02d:%s", i, stage)) }
				park("start")
				e.out = Execute(specs[e.spec], park)
				mu.Lock()
				e.done = true
				remaining--
				mu.Unlock()
			}()
		}
		if fontTask {
			started++
			go func() {
				defer sim.TaskDone()
				for k := 0; k < 3; k++ {
					sim.Yield("fonts:register")
					d2fonts.AddFontFamily(fmt.Sprintf("verif-family-%d", k), nil, nil, nil, nil)
				}
			}()
		}
		sim.AwaitEvents(started) // every task sits at its first park point
		for steps := 0; steps < 5000; steps++ {
			mu.Lock()
			r := remaining
			mu.Unlock()
			if r == 0 {
				break
			}
			if !sim.Step(false, nil) {
				res.HarnessError = "pipeline tasks are blocked without being parked"
				break
			}
		}
		sim.Drain()
		m1, _ := runtime.VerifSimStats()
		mapRands = m1 - m0
		for _, l := range sim.Trace() {
			if i := strings.Index(l, "release "); i >= 0 {
				order = append(order, l[i+8:])
			}
		}
		res.Steps = sim.Steps
		res.SchedHash = sim.SchedHash()
		res.Trace = sim.Trace()
	}()
	if res.HarnessError != "" {
		return
	}

	// ---- in-session: every execution of a spec equals every other one
	for i := range specs {
		var first *exec
		for _, e := range execs {
			if e.spec != i {
				continue
			}
			if first == nil {
				first = e
				continue
			}
			if e.out.Hash != first.out.Hash {
				res.Fail(prop, o2, "two executions of the same input and options in one process differ (%s; layout=%s sketch=%v theme=%d)\n%s\nscript:\n%s", specs[i].Name, specs[i].Layout, specs[i].Sketch, specs[i].Theme, diff(first.out, e.out), clip(string(specs[i].Script), 1500))
				break
			}
		}
		if res.Oracle != "" {
			break
		}
	}

	// ---- cross-process reference: another process, another seed, no neighbours
	if res.Oracle == "" {
		refs, err := reference(specs, salt)
		if err != nil {
			res.HarnessError = "reference process: " + err.Error()
			return
		}
		for i := range specs {
			var got *exec
			for _, e := range execs {
				if e.spec == i {
					got = e
					break
				}
			}
			if got.out.Hash != refs[i].Hash {
				res.Fail(prop, o1, "result differs from the reference computed in a separate process under another seed with no neighbours (%s; layout=%s sketch=%v theme=%d)\n%s\nscript:\n%s", specs[i].Name, specs[i].Layout, specs[i].Sketch, specs[i].Theme, diff(refs[i], got.out), clip(string(specs[i].Script), 1500))
				break
			}
		}
	}

	var names []string
	for _, s := range specs {
		names = append(names, fmt.Sprintf("%s layout=%s sketch=%v theme=%d dark=%d pad=%d (%d bytes)", s.Name, s.Layout, s.Sketch, s.Theme, s.Dark, s.Pad, len(s.Script)))
		res.ExtraHashes = append(res.ExtraHashes, harness.HashStrings([]string{s.Key(), fmt.Sprint(res.SchedHash)}))
	}
	res.Evals = len(execs) + len(specs)
	res.Nontrivial = len(execs) >= 2
	res.ProbeN("executions", len(execs))
	res.ProbeN("map_randoms_from_seam", int(mapRands))
	errs := 0
	for _, e := range execs {
		if e.out.Err != "" {
			errs++
		}
	}
	res.ProbeN("executions_ending_in_error", errs)
	if fontTask {
		res.Probe("font_registration_interleaved")
	}
	if len(order) > 40 {
		order = order[:40]
	}
	res.Sample = sample{Profile: prop, Specs: names, Executions: len(execs), Order: order, MapRands: mapRands}
	return
}

func toBytes(m map[string]string) map[string][]byte {
	if m == nil {
		return nil
	}
	out := map[string][]byte{}
	for k, v := range m {
		out[k] = []byte(v)
	}
	return out
}

func clip(s string, n int) string {
	if len(s) > n {
		return s[:n] + "…"
	}
	return s
}

func diff(a, b Output) string {
	if a.Err != b.Err {
		return fmt.Sprintf("errors differ:\n  A: %s\n  B: %s", clip(a.Err, 600), clip(b.Err, 600))
	}
	x, y := a.Body, b.Body
	i := 0
	for i < len(x) && i < len(y) && x[i] == y[i] {
		i++
	}
	lo := i - 100
	if lo < 0 {
		lo = 0
	}
	return fmt.Sprintf("outputs (%d vs %d bytes) first differ at offset %d:\n  A: …%s\n  B: …%s", len(x), len(y), i, clip(x[lo:], 260), clip(y[lo:], 260))
}

// reference computes every spec in its own fresh process of this same binary: another
// process, another seed, and no neighbour at all (not even the session's other specs).
func reference(specs []Spec, salt uint64) ([]Output, error) {
	outs := make([]Output, len(specs))
	errs := make([]error, len(specs))
	var wg sync.WaitGroup
	sem := make(chan struct{}, 2)
	for i := range specs {
		wg.Add(1)
		sem <- struct{}{}
		go func(i int) {
			defer wg.Done()
			defer func() { <-sem }()
			o, err := referenceOne(specs[i], salt+uint64(i)*7919)
			outs[i], errs[i] = o, err
		}(i)
	}
	wg.Wait()
	for _, err := range errs {
		if err != nil {
			return nil, err
		}
	}
	return outs, nil
}

func referenceOne(spec Spec, salt uint64) (Output, error) {
	dir, err := os.MkdirTemp("", "verifsim-pipe-ref-")
	if err != nil {
		return Output{}, err
	}
	defer os.RemoveAll(dir)
	in := filepath.Join(dir, "in.json")
	out := filepath.Join(dir, "out.json")
	b, _ := json.Marshal([]Spec{spec})
	if err := os.WriteFile(in, b, 0644); err != nil {
		return Output{}, err
	}
	cmd := exec.Command(os.Args[0], "-test.run", "^TestReference$", "-test.timeout", "0")
	cmd.Env = append(os.Environ(), "VSIM_REF_IN="+in, "VSIM_REF_OUT="+out, fmt.Sprintf("VSIM_REF_SALT=%d", salt^0x5a5a5a5a5a), "GOMAXPROCS=1")
	done := make(chan error, 1)
	var stderr []byte
	go func() {
		o, err := cmd.CombinedOutput()
		stderr = o
		done <- err
	}()
	select {
	case err := <-done:
		if err != nil {
			return Output{}, fmt.Errorf("%v: %s", err, clip(string(stderr), 2000))
		}
	case <-time.After(10 * time.Minute):
		cmd.Process.Kill()
		return Output{}, fmt.Errorf("reference process timed out")
	}
	rb, err := os.ReadFile(out)
	if err != nil {
		return Output{}, err
	}
	var outs []Output
	if err := json.Unmarshal(rb, &outs); err != nil {
		return Output{}, err
	}
	if len(outs) != 1 {
		return Output{}, fmt.Errorf("reference returned %d results for 1 spec", len(outs))
	}
	return outs[0], nil
}

// ReferenceMain is the body of the reference process.
func ReferenceMain() error {
	in, out := os.Getenv("VSIM_REF_IN"), os.Getenv("VSIM_REF_OUT")
	if in == "" {
		return nil
	}
	b, err := os.ReadFile(in)
	if err != nil {
		return err
	}
	var specs []Spec
	if err := json.Unmarshal(b, &specs); err != nil {
		return err
	}
	var salt uint64
	fmt.Sscan(os.Getenv("VSIM_REF_SALT"), &salt)
	runtime.VerifSimEnable(salt | 1)
	defer runtime.VerifSimDisable()
	// reversed order: the reference process also has a different history
	idx := make([]int, len(specs))
	for i := range idx {
		idx[i] = i
	}
	sort.Sort(sort.Reverse(sort.IntSlice(idx)))
	outs := make([]Output, len(specs))
	for _, i := range idx {
		outs[i] = Execute(specs[i], nil)
	}
	ob, _ := json.Marshal(outs)
	return os.WriteFile(out, ob, 0644)
}
