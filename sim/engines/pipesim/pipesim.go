// Package pipesim decides C08 and C25: the compile (C08) and compile-layout-render (C25)
// pipeline must produce the same result for the same input and options whenever, wherever
// and next to whatever it runs. A session executes several copies of a few task specs as
// caller tasks whose stages the simulator interleaves (one task runs at a time; the tape
// picks which), under a runtime seam that makes every map iteration order and select
// choice a function of the tape. Every execution of a spec must equal every other one,
// and must equal a reference computed by a separate process under another seed with no
// neighbours.
package pipesim

import (
	"bytes"
	"context"
	"crypto/sha256"
	"encoding/hex"
	"encoding/json"
	"fmt"
	"io/fs"
	"os"
	"os/exec"
	"path/filepath"
	"runtime"
	"runtime/debug"
	"sort"
	"strings"
	"sync"
	"sync/atomic"
	"testing"
	"time"
	"unsafe"

	"oss.terrastruct.com/d2/d2compiler"
	"oss.terrastruct.com/d2/d2graph"
	"oss.terrastruct.com/d2/d2layouts/d2dagrelayout"
	"oss.terrastruct.com/d2/d2layouts/d2elklayout"
	"oss.terrastruct.com/d2/d2lib"
	"oss.terrastruct.com/d2/d2plugin"
	"oss.terrastruct.com/d2/d2renderers/d2fonts"
	"oss.terrastruct.com/d2/d2renderers/d2svg"
	"oss.terrastruct.com/d2/d2target"
	"oss.terrastruct.com/d2/lib/textmeasure"
	"oss.terrastruct.com/d2/lib/verifhook"
	"oss.terrastruct.com/util-go/go2"

	"verifsim/corpus"
	"verifsim/d2gen"
	"verifsim/harness"
	"verifsim/sched"
	"verifsim/tape"
)

type Spec struct {
	Name   string            `json:"name"`
	Script []byte            `json:"script"` // bytes, not a string: JSON would mangle invalid UTF-8
	Files  map[string][]byte `json:"files,omitempty"`
	Render bool              `json:"render"`
	Layout string            `json:"layout"`
	Sketch bool              `json:"sketch"`
	Theme  int64             `json:"theme"`
	Dark   int64             `json:"dark"` // -1: none
	Pad    int64             `json:"pad"`  // -1: default
	Center bool              `json:"center"`
	// ViaPlugin: the layout engine is reached the way the CLI reaches it, through the
	// bundled plugin object of d2plugin (one per process, options hydrated once from the
	// flag defaults), not through the layout package's DefaultLayout.
	ViaPlugin bool `json:"via_plugin,omitempty"`
}

var pluginsOnce sync.Once
var plugins []d2plugin.Plugin
var pluginsErr error

// bundledPlugins does what the CLI does at start-up: list the bundled plugins and hydrate
// each one's options from its flags' default values.
func bundledPlugins() ([]d2plugin.Plugin, error) {
	pluginsOnce.Do(func() {
		ctx := context.Background()
		ps, err := d2plugin.ListPlugins(ctx)
		if err != nil {
			pluginsErr = err
			return
		}
		for _, p := range ps {
			flags, err := p.Flags(ctx)
			if err != nil {
				pluginsErr = err
				return
			}
			opts := map[string]interface{}{}
			for _, f := range flags {
				opts[f.Tag] = f.Default
			}
			b, err := json.Marshal(opts)
			if err != nil {
				pluginsErr = err
				return
			}
			if err := p.HydrateOpts(b); err != nil {
				pluginsErr = err
				return
			}
		}
		plugins = ps
	})
	return plugins, pluginsErr
}

func (s Spec) Key() string {
	b, _ := json.Marshal(s)
	h := sha256.Sum256(b)
	return hex.EncodeToString(h[:8])
}

type Output struct {
	Hash string `json:"hash"`
	Len  int    `json:"len"`
	Err  string `json:"err,omitempty"`
	Body string `json:"body,omitempty"`
}

type memFS struct {
	files map[string][]byte
	park  func(string)
}

type memFile struct {
	*strings.Reader
}

func (memFile) Stat() (fs.FileInfo, error) { return nil, fmt.Errorf("stat unsupported") }
func (memFile) Close() error               { return nil }

func (m memFS) Open(name string) (fs.File, error) {
	if m.park != nil {
		m.park("import:" + filepath.Base(name))
	}
	c, ok := m.files[filepath.Base(name)]
	if !ok {
		return nil, &fs.PathError{Op: "open", Path: name, Err: fs.ErrNotExist}
	}
	return memFile{strings.NewReader(string(c))}, nil
}

// Execute runs one spec to completion; park (may be nil) is called between stages.
func Execute(sp Spec, park func(stage string)) (out Output) {
	if park == nil {
		park = func(string) {}
	}
	var body string
	defer func() {
		if p := recover(); p != nil {
			out.Err = fmt.Sprintf("panic: %v", p)
			body = out.Err + "\n" + firstFrames(debug.Stack())
		}
		h := sha256.Sum256([]byte(body + "\x00" + out.Err))
		out.Hash = hex.EncodeToString(h[:])
		out.Len = len(body)
		out.Body = body
	}()
	var fsys fs.FS
	if sp.Files != nil {
		fsys = memFS{files: sp.Files, park: park}
	}
	if !sp.Render {
		park("compile")
		g, _, err := d2compiler.Compile("index.d2", strings.NewReader(string(sp.Script)), &d2compiler.CompileOptions{FS: fsys})
		if err != nil {
			out.Err = err.Error()
			return
		}
		b, err := d2graph.SerializeGraph(g)
		if err != nil {
			out.Err = "serialize: " + err.Error()
			return
		}
		body = string(b)
		return
	}
	ruler, err := textmeasure.NewRuler()
	if err != nil {
		out.Err = err.Error()
		return
	}
	layout := sp.Layout
	resolver := func(engine string) (d2graph.LayoutGraph, error) {
		return func(ctx context.Context, g *d2graph.Graph) error {
			park("layout")
			var err error
			if sp.ViaPlugin {
				ps, perr := bundledPlugins()
				if perr != nil {
					return perr
				}
				p, perr := d2plugin.FindPlugin(ctx, ps, engine)
				if perr != nil {
					return perr
				}
				return p.Layout(ctx, g)
			}
			if engine == "elk" {
				err = d2elklayout.DefaultLayout(ctx, g)
			} else {
				err = d2dagrelayout.DefaultLayout(ctx, g)
			}
			return err
		}, nil
	}
	ro := &d2svg.RenderOpts{ThemeID: go2.Pointer(sp.Theme), Sketch: go2.Pointer(sp.Sketch), Center: go2.Pointer(sp.Center)}
	if sp.Dark >= 0 {
		ro.DarkThemeID = go2.Pointer(sp.Dark)
	}
	if sp.Pad >= 0 {
		ro.Pad = go2.Pointer(sp.Pad)
	}
	park("compile")
	diagram, _, err := d2lib.Compile(context.Background(), string(sp.Script), &d2lib.CompileOptions{
		Ruler: ruler, LayoutResolver: resolver, Layout: &layout, FS: fsys, InputPath: "index.d2",
	}, ro)
	if err != nil {
		out.Err = err.Error()
		return
	}
	var sb strings.Builder
	var walk func(d *d2target.Diagram, path string) error
	walk = func(d *d2target.Diagram, path string) error {
		park("render")
		svg, err := d2svg.Render(d, ro)
		if err != nil {
			return fmt.Errorf("%s: %w", path, err)
		}
		fmt.Fprintf(&sb, "<!-- board %s -->\n", path)
		sb.Write(svg)
		for _, l := range d.Layers {
			if err := walk(l, path+".layers."+l.Name); err != nil {
				return err
			}
		}
		for _, l := range d.Scenarios {
			if err := walk(l, path+".scenarios."+l.Name); err != nil {
				return err
			}
		}
		for _, l := range d.Steps {
			if err := walk(l, path+".steps."+l.Name); err != nil {
				return err
			}
		}
		return nil
	}
	if err := walk(diagram, "root"); err != nil {
		out.Err = err.Error()
	}
	body = sb.String()
	return
}

const (
	modeStages = iota
	modePoints
	modeStores
	modeSites
)

type taskCtx struct {
	idx, spec   int
	gid         uint64
	budget      int64
	park        func(stage string)
	target      string // stop after targetLeft more executions of this store site
	targetLeft  int
	noPair      bool
	forceTarget string // set by the scheduler while the task is parked
	// kid: a goroutine that an execution started itself (go func() {...}() in the pipeline's
	// own code); scheduled like a task under the name of the task it descends from.
	kid  bool
	name string
	// The task's wall clock is simulated: it advances by rate nanoseconds per scheduling
	// point passed; the rate is drawn anew for every slice (from "this task has a core to
	// itself" to "this task is starved": seconds pass between two statements).
	vclock, rate int64
}

// profileShared finds the store sites that write memory which outlives one execution: every
// spec is executed twice in a row, alone, with the garbage collector off (so that no address
// is ever reused), and a site is "shared" when the second execution stores to an address
// the first one stored to. Fresh allocations of an execution can never collide; what does
// is package-level state and whatever hangs off it (tables, caches, scratch buffers,
// registries). The result is a pure function of the specs.
func profileShared(specs []Spec, salt uint64) []string {
	old := debug.SetGCPercent(-1)
	defer debug.SetGCPercent(old)
	runtime.VerifSimEnable(salt | 1)
	defer runtime.VerifSimDisable()
	hot := map[string]bool{}
	done := map[string]bool{}
	var mu sync.Mutex
	for _, sp := range specs {
		if done[sp.Key()] {
			continue
		}
		done[sp.Key()] = true
		first := map[uintptr]string{}
		pass := 1
		verifhook.YieldFn = func(point string, arg any) {
			if arg == nil || len(point) == 0 || point[0] != 'w' {
				return
			}
			a := uintptr((*[2]unsafe.Pointer)(unsafe.Pointer(&arg))[1])
			if a == 0 {
				return
			}
			mu.Lock()
			if pass == 1 {
				first[a] = point
			} else if s1, ok := first[a]; ok {
				hot[s1], hot[point] = true, true
			}
			mu.Unlock()
		}
		Execute(sp, nil)
		mu.Lock()
		pass = 2
		mu.Unlock()
		Execute(sp, nil)
		verifhook.YieldFn = nil
	}
	var out []string
	for s := range hot {
		out = append(out, s)
	}
	sort.Strings(out)
	return out
}

type pairReq struct {
	task, spec int
	site       string
}

const maxSwitches = 3000

var stmtPoints, switches, heldBack, kidsStarted, wgWaits atomic.Int64

// sliceLen draws how many scheduling points a task passes before it loses the CPU again:
// log-uniform between 1 and about 130 000 points (16 000 stores), so that both "stop right here, two statements
// after the last stop" and "run through a whole stage" are common.
func sliceLen(tp *tape.Tape, storesOnly bool) int64 {
	n := 17
	if storesOnly {
		n = 14 // stores are a small fraction of the points
	}
	e := tp.Draw(n, "stmt.exp")
	return int64(1)<<e + int64(tp.Draw(1<<e, "stmt.frac"))
}

func firstFrames(b []byte) string {
	lines := strings.Split(string(b), "\n")
	var keep []string
	for _, l := range lines {
		if strings.Contains(l, "oss.terrastruct.com/d2/") && !strings.Contains(l, "0x") {
			keep = append(keep, strings.TrimSpace(l))
		}
		if len(keep) >= 4 {
			break
		}
	}
	return strings.Join(keep, " <- ")
}

var (
	corpusOnce sync.Once
	corp       []corpus.Entry
)

func loadCorpus() []corpus.Entry {
	corpusOnce.Do(func() {
		for _, e := range corpus.Load() {
			if strings.Contains(e.Name, "d2chaos") {
				continue
			}
			corp = append(corp, e)
		}
	})
	return corp
}

var (
	compilesMu  sync.Mutex
	compilesMem = map[string]bool{}
)

// compiles tells whether a corpus entry compiles (a pure function of the entry, memoised).
func compiles(e corpus.Entry) bool {
	compilesMu.Lock()
	defer compilesMu.Unlock()
	if v, ok := compilesMem[e.Name]; ok {
		return v
	}
	ok := func() (ok bool) {
		defer func() {
			if recover() != nil {
				ok = false
			}
		}()
		var fsys fs.FS
		if e.Files != nil {
			fsys = memFS{files: toBytes(e.Files)}
		}
		_, _, err := d2compiler.Compile("index.d2", strings.NewReader(e.Text), &d2compiler.CompileOptions{FS: fsys})
		return err == nil
	}()
	compilesMem[e.Name] = ok
	return ok
}

func drawSpec(tp *tape.Tape, idx int, render, thorough bool, first bool, allElk bool) Spec {
	c := loadCorpus()
	var sp Spec
	sp.Render = render
	maxLen := 2500
	if thorough {
		maxLen = 20000
	}
	if !render {
		maxLen = 200000
	}
	if render && allElk && tp.Chance(2, 3, "spec.generated.selfloops") {
		scr, files := d2gen.RenderScriptSelfLoops(tp)
		sp.Script, sp.Files, sp.Name = []byte(scr), toBytes(files), "generated-selfloops"
	} else if render && tp.Chance(2, 5, "spec.generated.render") {
		scr, files := d2gen.RenderScript(tp)
		sp.Script, sp.Files = []byte(scr), toBytes(files)
		sp.Name = "generated"
	} else if tp.Chance(1, 3, "spec.generated") {
		scr, files := d2gen.Script(tp)
		sp.Script, sp.Files = []byte(scr), toBytes(files)
		sp.Name = "generated"
	} else {
		var e corpus.Entry
		for try := 0; try < 20; try++ {
			if first && try == 0 {
				e = c[idx%len(c)]
			} else {
				e = c[tp.Draw(len(c), "spec.pick")]
			}
			if render && try < 10 && !compiles(e) {
				// a program that ends in a compile error renders nothing: C08 has those
				continue
			}
			if len(e.Text) <= maxLen {
				break
			}
		}
		if len(e.Text) > maxLen {
			e = corpus.Entry{Name: "fallback", Text: "a -> b -> c\n"}
		}
		sp.Script, sp.Files, sp.Name = []byte(e.Text), toBytes(e.Files), e.Name
	}
	sp.Layout = "dagre"
	sp.Dark, sp.Pad = -1, -1
	if render {
		if tp.Chance(1, 10, "spec.elk") || allElk {
			sp.Layout = "elk"
		}
		sp.ViaPlugin = tp.Chance(1, 2, "spec.viaplugin") || allElk
		sp.Sketch = tp.Chance(1, 3, "spec.sketch")
		if !sp.Sketch && bytes.Contains(sp.Script, []byte("-arrowhead: {shape:")) && tp.Chance(1, 2, "spec.sketch.arrowheads") {
			sp.Sketch = true // the sketch renderer draws every arrowhead shape with code of its own
		}
		themes := []int64{0, 1, 3, 4, 5, 6, 8, 100, 101, 200, 300, 301}
		if tp.Chance(1, 3, "spec.theme") {
			sp.Theme = themes[tp.Draw(len(themes), "spec.themeid")]
		}
		if tp.Chance(1, 6, "spec.dark") {
			sp.Dark = 200
		}
		if tp.Chance(1, 6, "spec.pad") {
			sp.Pad = int64(tp.Draw(200, "spec.padv"))
		}
		sp.Center = tp.Chance(1, 8, "spec.center")
	}
	return sp
}

type sample struct {
	Profile    string   `json:"profile"`
	Specs      []string `json:"specs"`
	Executions int      `json:"executions"`
	Order      []string `json:"stage_interleaving"`
	MapRands   uint64   `json:"map_randoms_drawn_from_the_seam"`
}

func Run(t *testing.T, cfg harness.Config, idx int, tp *tape.Tape) (res harness.Result) {
	render := cfg.Property == "C25"
	prop := "C08"
	o1, o2 := "O08.1", "O08.2"
	if render {
		prop, o1, o2 = "C25", "O25.1", "O25.2"
	}
	nspec := 1 + tp.Weighted([]int{3, 4, 2}, "session.nspec")
	// One render session in six lays out every diagram with ELK, through the plugin object
	// as the CLI does, and most of its inputs are generated with self-loops (the engine is
	// slow; otherwise a single diagram gets it one time in ten): what one ELK layout leaves
	// behind can only show in another ELK layout.
	allElk := render && tp.Chance(1, 6, "session.allelk")
	if allElk && nspec > 2 {
		nspec = 2 // ELK layouts are slow: an ELK-only session stays small
	}
	var specs []Spec
	for i := 0; i < nspec; i++ {
		specs = append(specs, drawSpec(tp, idx, render, cfg.Thorough(), i == 0, allElk))
	}
	if !allElk && tp.Chance(1, 5, "session.family") {
		// a family: different programs over the same importable files
		scripts, files := d2gen.Family(tp)
		base := drawSpec(tp, idx, render, cfg.Thorough(), false, allElk)
		for i, scr := range scripts {
			sp := base
			sp.Name = fmt.Sprintf("family-member-%d", i)
			sp.Script, sp.Files = []byte(scr), toBytes(files)
			specs = append(specs, sp)
		}
	}
	type exec struct {
		spec int
		out  Output
		done bool
	}
	var execs []*exec
	for i := range specs {
		reps := 2 + tp.Draw(2, "session.reps")
		if allElk {
			reps = 2
		}
		for r := 0; r < reps; r++ {
			execs = append(execs, &exec{spec: i})
		}
	}
	fontTask := tp.Chance(1, 4, "session.fonttask")
	// Statement-level interleaving (three quarters of the sessions, when the build carries
	// the scheduling points of cmd/yieldgen): a task also loses the CPU in the middle of a
	// stage, after a tape-chosen number of statements, unless it holds a lock.
	// modePoints: after a tape-chosen number of scheduling points of any kind.
	// modeStores: only right after a store to a field, an element or a pointee (a window in
	//   which shared state is half-updated always opens with one).
	// modeSites:  right after a tape-chosen store site, then a partner task is run up to the
	//   same site and the first task continues ("pair").
	mode := tp.Weighted([]int{2, 2, 2, 4}, "session.mode")
	pairs := 0
	salt := uint64(tp.Draw(1<<30, "runtime.salt"))
	var hot []string
	if mode == modePoints || mode == modeStores {
		// Warm-up: where a task stops is counted in scheduling points, and the first
		// execution of an input in a process passes more of them than later ones (lazily
		// built tables, font and measurement caches). One execution of every input before
		// the scheduled ones makes the count independent of what the process did before.
		runtime.VerifSimEnable(salt | 1)
		seen := map[string]bool{}
		for _, sp := range specs {
			if !seen[sp.Key()] {
				seen[sp.Key()] = true
				Execute(sp, nil)
			}
		}
		runtime.VerifSimDisable()
	}
	if mode == modeSites {
		hot = profileShared(specs, salt)
		if os.Getenv("VSIM_SHOWHOT") != "" && len(hot) > 0 {
			fmt.Fprintf(os.Stderr, "HOT %v\n", hot)
		}
	}
	if len(hot) > 0 && !allElk {
		// State shared between executions is where interleavings matter: more copies of
		// every input, so that there are more partners and more attempts.
		for i := range specs {
			for r := 0; r < 3; r++ {
				execs = append(execs, &exec{spec: i})
			}
		}
	}
	var order []string
	var mapRands uint64

	// No synctest bubble here: the pipeline has no timers, and a background clock goroutine
	// of a dependency (regexp2, used by the syntax highlighter) must not be born in one.
	func() {
		defer func() {
			if p := recover(); p != nil {
				res.HarnessError = fmt.Sprintf("panic: %v\n%s", p, debug.Stack())
			}
		}()
		// The font task registers font families for good; the registry is put back at the
		// end of the session so that the next session of this process starts like the first.
		d2fonts.FontFamiliesMu.Lock()
		baseFamilies := len(d2fonts.FontFamilies)
		d2fonts.FontFamiliesMu.Unlock()
		defer func() {
			d2fonts.FontFamiliesMu.Lock()
			d2fonts.FontFamilies = d2fonts.FontFamilies[:baseFamilies:baseFamilies]
			d2fonts.FontFamiliesMu.Unlock()
		}()
		sim := sched.NewSequential(tp)
		runtime.VerifSimEnable(salt + 1)
		defer runtime.VerifSimDisable()
		m0, _ := runtime.VerifSimStats()
		var mu sync.Mutex
		remaining := len(execs)
		started := 0
		var cur atomic.Pointer[taskCtx]
		tasks := make([]*taskCtx, len(execs))
		var sites []string            // distinct store sites in order of first execution (this session)
		siteSeen := map[string]bool{} // (one task runs at a time: no lock needed)
		var pair *pairReq
		// nextSlice decides, in the goroutine that was just released, how far it runs now.
		nextSlice := func(t *taskCtx) {
			t.target, t.noPair = "", false
			t.rate = []int64{50, 200, 2000, 50000, 2000000}[tp.Weighted([]int{6, 4, 3, 2, 1}, "stmt.clockrate")]
			if t.forceTarget != "" {
				// partner of a pair: run until the site where the other task stopped
				t.target, t.targetLeft, t.noPair, t.forceTarget = t.forceTarget, 1+tp.Draw(2, "pair.occurrence"), true, ""
				t.budget = 1 << 22
				return
			}
			if mode == modeSites && len(hot) > 0 && tp.Chance(4, 5, "stmt.hot") {
				// a store site that writes state shared between executions
				t.target = hot[tp.Draw(len(hot), "stmt.whichhot")]
				t.targetLeft = 1 + tp.Draw(6, "stmt.occurrence")
				t.budget = 1 << 22
				return
			}
			if mode == modeSites && len(sites) > 0 && tp.Chance(3, 4, "stmt.site") {
				// stop right after the k-th next execution of one store site, every site
				// that was executed so far being equally likely (a store that runs twice per
				// compilation is as likely a stop as one that runs a million times)
				t.target = sites[tp.Draw(len(sites), "stmt.whichsite")]
				t.targetLeft = 1 + tp.Draw(3, "stmt.occurrence")
				t.budget = 1 << 22
				return
			}
			t.budget = sliceLen(tp, mode != modePoints)
		}
		// Goroutines that the pipeline starts itself (statement-level sessions; the source
		// overlay announces every `go func() {...}()` of the pipeline packages): the go
		// statement is announced by the running goroutine, the new goroutine parks at its first
		// statement and is from then on one more thing the scheduler can run; the scheduler
		// takes no decision while an announced goroutine has not reported in. A task that
		// waits for its goroutines (sync.WaitGroup.Wait, standard-library overlay) sits at a
		// scheduling point until the counter is zero.
		var announced, registered atomic.Int64
		var spawners sync.Map // lineage id of an announcing goroutine -> its *taskCtx
		var kids sync.Map     // lineage id -> *taskCtx
		waitKids := func() bool {
			for i := 0; announced.Load() != registered.Load(); i++ {
				if i > 200000 {
					return false
				}
				if i < 100 {
					runtime.Gosched()
				} else {
					time.Sleep(50 * time.Microsecond)
				}
			}
			return true
		}
		if mode != modeStages {
			wh := &sync.VerifMutexHooks{}
			wh.IsTarget = func(uintptr) bool {
				t := cur.Load()
				return t != nil && t.gid == runtime.VerifGID()
			}
			wh.Before = func(_ unsafe.Pointer, _ uintptr, attempt int) {
				t := cur.Load()
				if t == nil || t.gid != runtime.VerifGID() || sim.Draining() {
					runtime.Gosched()
					return
				}
				wgWaits.Add(1)
				t.park("ww")
			}
			sync.VerifWait.Store(wh)
			defer sync.VerifWait.Store(nil)
			verifhook.YieldFn = func(point string, _ any) {
				if len(point) == 1 {
					switch point[0] {
					case 'G':
						if t := cur.Load(); t != nil && t.gid == runtime.VerifGID() && !sim.Draining() {
							spawners.Store(t.gid, t)
							announced.Add(1)
						} else {
							spawners.Delete(runtime.VerifGID())
						}
						return
					case 'g':
						gid := runtime.VerifGID()
						if t := cur.Load(); t != nil && t.gid == gid {
							// not a new goroutine: the announced literal runs on the
							// announcer's own goroutine
							if _, ok := spawners.Load(gid); ok {
								announced.Add(-1)
							}
							return
						}
						pv, ok := spawners.Load(runtime.VerifParentGID())
						if !ok || gid == 0 {
							return // started by a goroutine the scheduler does not run: free
						}
						p := pv.(*taskCtx)
						root := p.name
						if j := strings.IndexByte(root, '.'); j >= 0 {
							root = root[:j]
						}
						k := &taskCtx{idx: p.idx, spec: p.spec, gid: gid, budget: 1 << 60, rate: 50, kid: true}
						k.name = fmt.Sprintf("%s.k%04x", root, gid&0xffff)
						k.park = func(stage string) {
							cur.Store(nil)
							sim.Yield(k.name + ":" + stage)
							cur.Store(k)
							if stage == "stmt" {
								nextSlice(k)
							}
						}
						kids.Store(gid, k)
						kidsStarted.Add(1)
						sim.ParkQuiet(k.name+":start", sched.Go, func() { registered.Add(1) })
						cur.Store(k)
						nextSlice(k)
						return
					case 'x':
						if v, ok := kids.Load(runtime.VerifGID()); ok {
							kids.Delete(runtime.VerifGID())
							if c := cur.Load(); c == v.(*taskCtx) {
								cur.Store(nil)
								sim.TaskDone()
							}
						}
						return
					}
				}
				if len(point) == 0 || (point[0] != 's' && point[0] != 'w') {
					return
				}
				stmtPoints.Add(1)
				if t := cur.Load(); t != nil && t.gid == runtime.VerifGID() {
					t.vclock += t.rate
				}
				store := point[0] == 'w'
				if store && !siteSeen[point] {
					siteSeen[point] = true
					sites = append(sites, point)
				}
				t := cur.Load()
				if t == nil || t.gid != runtime.VerifGID() {
					return // not a task's own goroutine
				}
				if t.target != "" {
					if !store || point != t.target {
						t.budget--
						if t.budget > 0 {
							return
						}
					} else {
						t.targetLeft--
						if t.targetLeft > 0 {
							return
						}
					}
				} else {
					if mode != modePoints && !store {
						return
					}
					t.budget--
					if t.budget > 0 {
						return
					}
				}
				if runtime.VerifLocksHeld() > 0 {
					// whoever wants that lock next could not be parked: try again soon
					t.budget, t.targetLeft = 4, 1
					heldBack.Add(1)
					return
				}
				if switches.Load() >= maxSwitches {
					t.target, t.budget = "", 1<<60
					return
				}
				switches.Add(1)
				if t.target != "" && store && point == t.target && !t.noPair && !t.kid {
					pair = &pairReq{task: t.idx, spec: t.spec, site: point}
				}
				t.park("stmt")
			}
			defer func() { verifhook.YieldFn = nil }()
			// time.Now of a task's own goroutine is the task's simulated clock
			time.VerifNow = func() (int64, bool) {
				t := cur.Load()
				if t == nil || t.gid != runtime.VerifGID() {
					return 0, false
				}
				return 1_700_000_000_000_000_000 + t.vclock, true
			}
			defer func() { time.VerifNow = nil }()
		}
		for i, e := range execs {
			i, e := i, e
			started++
			t := &taskCtx{idx: i, spec: e.spec, budget: 1 << 60, rate: 50, name: fmt.Sprintf("task%02d", i)}
			tasks[i] = t
			go func() {
				defer sim.TaskDone()
				t.gid = runtime.VerifGID()
				t.park = func(stage string) {
					cur.Store(nil)
					sim.Yield(fmt.Sprintf("task%02d:%s", i, stage))
					cur.Store(t)
					if mode != modeStages && (stage == "stmt" || stage == "start" || t.forceTarget != "") {
						nextSlice(t)
					}
				}
				defer cur.Store(nil)
				t.park("start")
				e.out = Execute(specs[e.spec], t.park)
				mu.Lock()
				e.done = true
				remaining--
				mu.Unlock()
			}()
		}
		if fontTask {
			started++
			go func() {
				defer sim.TaskDone()
				for k := 0; k < 3; k++ {
					sim.Yield("fonts:register")
					d2fonts.AddFontFamily(fmt.Sprintf("verif-family-%d", k), nil, nil, nil, nil)
				}
			}()
		}
		sim.AwaitEvents(started) // every task sits at its first park point
		taskKey := func(idx int) string {
			pre := fmt.Sprintf("task%02d:", idx)
			for _, k := range sim.ParkedKeys() {
				if strings.HasPrefix(k, pre) {
					return k
				}
			}
			return ""
		}
		for steps := 0; steps < 12000; steps++ {
			mu.Lock()
			r := remaining
			mu.Unlock()
			if r == 0 {
				break
			}
			if p := pair; p != nil {
				// Task p.task stopped right after a store at p.site. Let another task
				// (a copy of the same input if there is one) run until it has executed the
				// same store, then give the CPU back to the first: if the two stores hit
				// the same memory, the first task now reads what the second one wrote.
				pair = nil
				var same, other []int
				for _, t := range tasks {
					if t.idx == p.task || taskKey(t.idx) == "" {
						continue
					}
					if t.spec == p.spec {
						same = append(same, t.idx)
					} else {
						other = append(other, t.idx)
					}
				}
				cands := same
				if len(cands) == 0 || tp.Chance(1, 5, "pair.other") {
					cands = append(cands, other...)
				}
				if len(cands) > 0 {
					b := cands[tp.Draw(len(cands), "pair.partner")]
					tasks[b].forceTarget = p.site
					kb := taskKey(b)
					if !waitKids() {
						res.HarnessError = "a goroutine started by the pipeline did not report in"
						break
					}
					sim.Step(false, func(k string) bool { return k == kb })
					pair = nil
					if ka := taskKey(p.task); ka != "" && waitKids() {
						sim.Step(false, func(k string) bool { return k == ka })
					}
					pairs++
					continue
				}
			}
			if !waitKids() {
				res.HarnessError = "a goroutine started by the pipeline did not report in"
				break
			}
			if !sim.Step(false, nil) {
				res.HarnessError = "pipeline tasks are blocked without being parked"
				break
			}
		}
		sim.Drain()
		m1, _ := runtime.VerifSimStats()
		mapRands = m1 - m0
		for _, l := range sim.Trace() {
			if i := strings.Index(l, "release "); i >= 0 {
				order = append(order, l[i+8:])
			}
		}
		res.Steps = sim.Steps
		res.SchedHash = sim.SchedHash()
		res.Trace = sim.Trace()
	}()
	if res.HarnessError != "" {
		return
	}

	// ---- in-session: every execution of a spec equals every other one
	for i := range specs {
		var first *exec
		for _, e := range execs {
			if e.spec != i {
				continue
			}
			if first == nil {
				first = e
				continue
			}
			if e.out.Hash != first.out.Hash {
				res.Fail(prop, o2, "two executions of the same input and options in one process differ (%s; layout=%s sketch=%v theme=%d)\n%s\nscript:\n%s", specs[i].Name, specs[i].Layout, specs[i].Sketch, specs[i].Theme, diff(first.out, e.out), clip(string(specs[i].Script), 1500))
				break
			}
		}
		if res.Oracle != "" {
			break
		}
	}

	// ---- cross-process reference: another process, another seed, no neighbours
	if res.Oracle == "" {
		refs, err := reference(specs, salt)
		if err != nil {
			res.HarnessError = "reference process: " + err.Error()
			return
		}
		for i := range specs {
			var got *exec
			for _, e := range execs {
				if e.spec == i {
					got = e
					break
				}
			}
			if got.out.Hash != refs[i].Hash {
				res.Fail(prop, o1, "result differs from the reference computed in a separate process under another seed with no neighbours (%s; layout=%s sketch=%v theme=%d)\n%s\nscript:\n%s", specs[i].Name, specs[i].Layout, specs[i].Sketch, specs[i].Theme, diff(refs[i], got.out), clip(string(specs[i].Script), 1500))
				break
			}
		}
	}

	var names []string
	for _, s := range specs {
		names = append(names, fmt.Sprintf("%s layout=%s sketch=%v theme=%d dark=%d pad=%d (%d bytes)", s.Name, s.Layout, s.Sketch, s.Theme, s.Dark, s.Pad, len(s.Script)))
		res.ExtraHashes = append(res.ExtraHashes, harness.HashStrings([]string{s.Key(), fmt.Sprint(res.SchedHash)}))
	}
	if mode != modeStages {
		// Where a task stops is counted in scheduling points, and how many of them a stage
		// passes is not the same in two processes: d2 ranges over maps keyed by pointers
		// (with early exits), and the order of such a map depends on addresses. The
		// schedule therefore cannot be compared across processes; what the same seed must
		// reproduce is the inputs and every execution's result.
		var parts []string
		for _, sp := range specs {
			parts = append(parts, sp.Key())
		}
		for _, e := range execs {
			parts = append(parts, e.out.Hash)
		}
		res.DetKey = fmt.Sprintf("mode%d %s", mode, strings.Join(parts, " "))
	}
	for _, sp := range specs {
		if sp.Render && sp.Sketch && bytes.Contains(sp.Script, []byte("shape: circle; style.filled: true")) {
			res.Probe("sketch_spec_with_a_filled_circle_arrowhead")
		}
	}
	res.Evals = len(execs) + len(specs)
	res.Nontrivial = len(execs) >= 2
	res.ProbeN("executions", len(execs))
	res.ProbeN("map_randoms_from_seam", int(mapRands))
	res.Probe([]string{"mode.stage_boundaries_only", "mode.any_point", "mode.after_stores", "mode.store_sites_and_pairs"}[mode])
	res.ProbeN("pairs_same_store_site_in_two_tasks", pairs)
	res.ProbeN("store_sites_writing_state_shared_between_executions", len(hot))
	if mode != modeStages {
		res.Probe("sessions_with_statement_level_interleaving")
		res.ProbeN("statement_points_passed", int(stmtPoints.Swap(0)))
		res.ProbeN("statement_level_switches", int(switches.Swap(0)))
		res.ProbeN("switch_held_back_because_a_lock_was_held", int(heldBack.Swap(0)))
		res.ProbeN("goroutines_started_by_the_pipeline_and_scheduled", int(kidsStarted.Swap(0)))
		res.ProbeN("waitgroup_waits_turned_into_scheduling_points", int(wgWaits.Swap(0)))
	}
	errs := 0
	for _, e := range execs {
		if e.out.Err != "" {
			errs++
		}
	}
	res.ProbeN("executions_ending_in_error", errs)
	if fontTask {
		res.Probe("font_registration_interleaved")
	}
	if len(order) > 40 {
		order = order[:40]
	}
	res.Sample = sample{Profile: prop, Specs: names, Executions: len(execs), Order: order, MapRands: mapRands}
	return
}

func toBytes(m map[string]string) map[string][]byte {
	if m == nil {
		return nil
	}
	out := map[string][]byte{}
	for k, v := range m {
		out[k] = []byte(v)
	}
	return out
}

func clip(s string, n int) string {
	if len(s) > n {
		return s[:n] + "…"
	}
	return s
}

func diff(a, b Output) string {
	if a.Err != b.Err {
		return fmt.Sprintf("errors differ:\n  A: %s\n  B: %s", clip(a.Err, 600), clip(b.Err, 600))
	}
	x, y := a.Body, b.Body
	i := 0
	for i < len(x) && i < len(y) && x[i] == y[i] {
		i++
	}
	lo := i - 100
	if lo < 0 {
		lo = 0
	}
	return fmt.Sprintf("outputs (%d vs %d bytes) first differ at offset %d:\n  A: …%s\n  B: …%s", len(x), len(y), i, clip(x[lo:], 260), clip(y[lo:], 260))
}

// reference computes every spec in its own fresh process of this same binary: another
// process, another seed, and no neighbour at all (not even the session's other specs).
func reference(specs []Spec, salt uint64) ([]Output, error) {
	outs := make([]Output, len(specs))
	errs := make([]error, len(specs))
	var wg sync.WaitGroup
	sem := make(chan struct{}, 2)
	for i := range specs {
		wg.Add(1)
		sem <- struct{}{}
		go func(i int) {
			defer wg.Done()
			defer func() { <-sem }()
			o, err := referenceOne(specs[i], salt+uint64(i)*7919)
			outs[i], errs[i] = o, err
		}(i)
	}
	wg.Wait()
	for _, err := range errs {
		if err != nil {
			return nil, err
		}
	}
	return outs, nil
}

func referenceOne(spec Spec, salt uint64) (Output, error) {
	dir, err := os.MkdirTemp("", "verifsim-pipe-ref-")
	if err != nil {
		return Output{}, err
	}
	defer os.RemoveAll(dir)
	in := filepath.Join(dir, "in.json")
	out := filepath.Join(dir, "out.json")
	b, _ := json.Marshal([]Spec{spec})
	if err := os.WriteFile(in, b, 0644); err != nil {
		return Output{}, err
	}
	cmd := exec.Command(os.Args[0], "-test.run", "^TestReference$", "-test.timeout", "0")
	cmd.Env = append(os.Environ(), "VSIM_REF_IN="+in, "VSIM_REF_OUT="+out, fmt.Sprintf("VSIM_REF_SALT=%d", salt^0x5a5a5a5a5a), "GOMAXPROCS=1")
	done := make(chan error, 1)
	var stderr []byte
	go func() {
		o, err := cmd.CombinedOutput()
		stderr = o
		done <- err
	}()
	select {
	case err := <-done:
		if err != nil {
			return Output{}, fmt.Errorf("%v: %s", err, clip(string(stderr), 2000))
		}
	case <-time.After(10 * time.Minute):
		cmd.Process.Kill()
		return Output{}, fmt.Errorf("reference process timed out")
	}
	rb, err := os.ReadFile(out)
	if err != nil {
		return Output{}, err
	}
	var outs []Output
	if err := json.Unmarshal(rb, &outs); err != nil {
		return Output{}, err
	}
	if len(outs) != 1 {
		return Output{}, fmt.Errorf("reference returned %d results for 1 spec", len(outs))
	}
	return outs[0], nil
}

// ReferenceMain is the body of the reference process.
func ReferenceMain() error {
	in, out := os.Getenv("VSIM_REF_IN"), os.Getenv("VSIM_REF_OUT")
	if in == "" {
		return nil
	}
	b, err := os.ReadFile(in)
	if err != nil {
		return err
	}
	var specs []Spec
	if err := json.Unmarshal(b, &specs); err != nil {
		return err
	}
	var salt uint64
	fmt.Sscan(os.Getenv("VSIM_REF_SALT"), &salt)
	runtime.VerifSimEnable(salt | 1)
	defer runtime.VerifSimDisable()
	// reversed order: the reference process also has a different history
	idx := make([]int, len(specs))
	for i := range idx {
		idx[i] = i
	}
	sort.Sort(sort.Reverse(sort.IntSlice(idx)))
	outs := make([]Output, len(specs))
	for _, i := range idx {
		outs[i] = Execute(specs[i], nil)
	}
	ob, _ := json.Marshal(outs)
	return os.WriteFile(out, ob, 0644)
}
