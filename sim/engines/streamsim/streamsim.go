// Package streamsim decides the stream-delivery slice of C01: the result of
// d2parser.Parse (and of the import path of d2compiler.Compile, which parses straight
// from an fs.File) must not depend on how, and how far, the bytes arrive.
package streamsim

import (
	"bufio"
	"bytes"
	"encoding/json"
	"errors"
	"fmt"
	"io"
	"io/fs"
	"os"
	"runtime/debug"
	"strings"
	"sync"
	"time"
	"unicode/utf16"

	"oss.terrastruct.com/d2/d2ast"
	"oss.terrastruct.com/d2/d2compiler"
	"oss.terrastruct.com/d2/d2graph"
	"oss.terrastruct.com/d2/d2parser"

	"verifsim/corpus"
	"verifsim/harness"
	"verifsim/tape"
)

var errSim = errors.New("verif-simulated-io-failure")

const ioErrMsg = "io error: verif-simulated-io-failure"

var (
	corpusOnce sync.Once
	corp       []corpus.Entry
)

func loadCorpus() []corpus.Entry {
	corpusOnce.Do(func() { corp = corpus.Load() })
	return corp
}

// ---------------------------------------------------------------- fault reader

type pattern struct {
	Kind     int    // 0 fixed size, 1 random 1..8, 2 random 1..64, 3 bufio-sized (4096 +-1)
	Size     int    // for kind 0
	Seed     uint64 // local PRNG for per-read choices (keeps the tape short)
	Zero     bool   // sprinkle (0, nil) reads, never more than 3 in a row
	EOFJoin  bool   // deliver the final bytes together with the terminal error
	ErrAtEnd error  // nil = io.EOF
	Bufio    int    // > 0: the caller hands Parse a *bufio.Reader of this size around the stream
}

func (p pattern) String() string {
	e := "eof"
	if p.ErrAtEnd != nil {
		e = "err"
	}
	return fmt.Sprintf("kind=%d size=%d zero=%v join=%v end=%s bufio=%d", p.Kind, p.Size, p.Zero, p.EOFJoin, e, p.Bufio)
}

type faultReader struct {
	data  []byte // only data[:limit] is ever delivered
	off   int
	pat   pattern
	rng   uint64
	zeros int
	calls int
	bound int
	done  bool
}

func newFaultReader(data []byte, limit int, pat pattern) *faultReader {
	return &faultReader{data: data[:limit], pat: pat, rng: pat.Seed, bound: 8*limit + 2000}
}

type boundExceeded struct{ calls int }

func (r *faultReader) Read(p []byte) (int, error) {
	r.calls++
	if r.calls > r.bound {
		panic(boundExceeded{r.calls})
	}
	end := r.pat.ErrAtEnd
	if end == nil {
		end = io.EOF
	}
	if r.done || len(p) == 0 {
		if r.done {
			return 0, end // sticky
		}
		return 0, nil
	}
	if r.off >= len(r.data) {
		r.done = true
		return 0, end
	}
	if r.pat.Zero && r.zeros < 3 && tape.SplitMix(&r.rng)%6 == 0 {
		r.zeros++
		return 0, nil
	}
	r.zeros = 0
	n := 1
	switch r.pat.Kind {
	case 0:
		n = r.pat.Size
	case 1:
		n = 1 + int(tape.SplitMix(&r.rng)%8)
	case 2:
		n = 1 + int(tape.SplitMix(&r.rng)%64)
	case 3:
		n = 4095 + int(tape.SplitMix(&r.rng)%3)
	}
	if n > len(p) {
		n = len(p)
	}
	if n > len(r.data)-r.off {
		n = len(r.data) - r.off
	}
	copy(p, r.data[r.off:r.off+n])
	r.off += n
	if r.off >= len(r.data) && r.pat.EOFJoin {
		r.done = true
		return n, end
	}
	return n, nil
}

// ---------------------------------------------------------------- observation

type parseOut struct {
	End    d2ast.Position
	AST    string
	Errs   []string
	IOErrs []d2ast.Error
	Panic  string
	Nil    bool
}

func observe(m *d2ast.Map, err error) parseOut {
	var o parseOut
	if m == nil {
		o.Nil = true
	} else {
		o.End = m.Range.End
		b, jerr := json.Marshal(m)
		if jerr != nil {
			o.AST = "json error: " + jerr.Error()
		} else {
			o.AST = string(b)
		}
	}
	if err != nil {
		var pe *d2parser.ParseError
		if errors.As(err, &pe) {
			for _, e := range pe.Errors {
				if e.Message == ioErrMsg {
					o.IOErrs = append(o.IOErrs, e)
					continue
				}
				o.Errs = append(o.Errs, e.Range.String()+"|"+e.Message)
			}
		} else {
			o.Errs = append(o.Errs, "non-ParseError: "+err.Error())
		}
	}
	return o
}

const parseWatchdog = 60 * time.Second

// guarded runs f with panic recovery and a wall-clock watchdog (a parser that spins
// without touching its reader cannot be caught by the reader-call bound).
func guarded(f func() parseOut) (out parseOut, timedOut bool) {
	ch := make(chan parseOut, 1)
	go func() {
		defer func() {
			if p := recover(); p != nil {
				if be, ok := p.(boundExceeded); ok {
					ch <- parseOut{Panic: fmt.Sprintf("reader-call bound exceeded (%d calls): parse does not terminate on this stream", be.calls)}
					return
				}
				ch <- parseOut{Panic: fmt.Sprintf("panic: %v\n%s", p, trimStack(debug.Stack()))}
			}
		}()
		ch <- f()
	}()
	select {
	case o := <-ch:
		return o, false
	case <-time.After(parseWatchdog):
		return parseOut{}, true
	}
}

func trimStack(b []byte) string {
	s := string(b)
	if len(s) > 3000 {
		s = s[:3000]
	}
	return s
}

func parseWith(path string, r io.Reader, utf16pos bool) (parseOut, bool) {
	return guarded(func() parseOut {
		m, err := d2parser.Parse(path, r, &d2parser.ParseOptions{UTF16Pos: utf16pos})
		return observe(m, err)
	})
}

// ---------------------------------------------------------------- inputs

func toUTF16LE(s string) []byte {
	u := utf16.Encode([]rune(s))
	b := make([]byte, 0, 2+2*len(u))
	b = append(b, 0xFF, 0xFE)
	for _, c := range u {
		b = append(b, byte(c), byte(c>>8))
	}
	return b
}

func drawPattern(tp *tape.Tape) pattern {
	var p pattern
	p.Kind = tp.Weighted([]int{4, 3, 2, 1}, "chunk.kind")
	if p.Kind == 0 {
		sizes := []int{1, 2, 3, 5, 7, 16, 4095, 4096, 4097, 1 << 20}
		p.Size = sizes[tp.Draw(len(sizes), "chunk.size")]
	}
	p.Seed = uint64(tp.Draw(1<<16, "chunk.seed"))
	p.Zero = tp.Chance(1, 4, "chunk.zero")
	p.EOFJoin = tp.Chance(1, 3, "chunk.eofjoin")
	if tp.Chance(1, 5, "chunk.bufio") {
		// callers commonly wrap files and sockets in a bufio.Reader themselves
		p.Bufio = []int{16, 4096, 65536}[tp.Draw(3, "chunk.bufiosize")]
	}
	return p
}

func mutate(tp *tape.Tape, b []byte) []byte {
	out := append([]byte(nil), b...)
	n := 1 + tp.Draw(4, "mut.count")
	for i := 0; i < n; i++ {
		pos := 0
		if len(out) > 0 {
			pos = tp.Draw(len(out)+1, "mut.pos")
		}
		interesting := []string{"\xff\xfe", "\xfe\xff", "\xef\xbb\xbf", "\xff", "\x00", "\xc3", "\xe2\x82", "\xf0\x9f\x98", "\\", "\\\n", "\r\n", "\"", "'", "|`", "(", "->", "[", "{", "${", "...@", "@", "*", "&", "!&", "#", "\"\"\"", "|||", ";", ":", "\xed\xa0\x80", "\U0001F600"}
		tok := interesting[tp.Draw(len(interesting), "mut.tok")]
		switch tp.Draw(3, "mut.op") {
		case 0: // insert
			out = append(out[:pos], append([]byte(tok), out[pos:]...)...)
		case 1: // overwrite
			for j := 0; j < len(tok) && pos+j < len(out); j++ {
				out[pos+j] = tok[j]
			}
		case 2: // delete a few bytes
			end := pos + 1 + tp.Draw(4, "mut.del")
			if end > len(out) {
				end = len(out)
			}
			out = append(out[:pos], out[end:]...)
		}
	}
	return out
}

// tokenSoup builds lines out of short random sequences over the parser's special tokens, in
// key and in value position and inside maps, arrays and edge groups: the parser's
// lookahead/rewind logic is driven by which token follows which, and the corpus only has
// the adjacencies people write.
func tokenSoup(tp *tape.Tape) string {
	// Swarm: each run uses plain text plus a random handful of token classes, so that any
	// particular adjacency of two or three special tokens is frequent in some runs.
	classes := [][]string{{"*", "**"}, {"${v}", "${v}", "${"}, {"\\n", "\\", "\\\n"}, {" ", "\t"}, {"-", "--", "->", "<-", "<->"}, {"."}, {"&", "!&"}, {"(", ")"},
		{"@", "...@x"}, {"'", "\""}, {":", ";"}, {"|", "`"}, {"[", "]"}, {"{", "}"}, {"#"}, {"é", "\U0001F600", "\u00a0"}, {"null", "_", "0"}}
	toks := []string{"a", "bc", "def"}
	seed := uint64(tp.Draw(1<<30, "soup.seed"))
	next := func(n int) int { return int(tape.SplitMix(&seed) % uint64(n)) }
	for i, n := 0, 2+next(4); i < n; i++ {
		toks = append(toks, classes[next(len(classes))]...)
	}
	seq := func() string {
		var sb strings.Builder
		for i, n := 0, 2+next(8); i < n; i++ {
			sb.WriteString(toks[next(len(toks))])
		}
		return sb.String()
	}
	var sb strings.Builder
	for l, lines := 0, 8+next(40); l < lines; l++ {
		switch next(7) {
		case 0, 1:
			sb.WriteString("k" + fmt.Sprint(l) + ": " + seq() + "\n")
		case 2:
			sb.WriteString(seq() + ": v\n")
		case 3:
			sb.WriteString(seq() + "\n")
		case 4:
			sb.WriteString("m: {\n  " + seq() + ": " + seq() + "\n}\n")
		case 5:
			sb.WriteString("arr: [" + seq() + "; " + seq() + "]\n")
		case 6:
			sb.WriteString("(" + seq() + " -> " + seq() + ")[0]: " + seq() + "\n")
		}
	}
	return sb.String()
}

// ---------------------------------------------------------------- the run

type sample struct {
	Input    string `json:"input"`
	Encoding string `json:"encoding"`
	Bytes    int    `json:"bytes"`
	Mode     string `json:"mode"`
	Pattern  string `json:"pattern"`
	Parses   int    `json:"parses"`
}

func Run(cfg harness.Config, idx int, tp *tape.Tape) harness.Result {
	if cfg.Property == "C07" {
		return runC07(cfg, idx, tp)
	}
	var res harness.Result
	c := loadCorpus()
	if len(c) == 0 {
		res.HarnessError = "empty corpus"
		return res
	}
	e := c[idx%len(c)]
	if idx >= len(c) && tp.Chance(1, 2, "input.random") {
		e = c[tp.Draw(len(c), "input.pick")]
	}

	mode := tp.Weighted([]int{3, 3, 2, 2}, "mode")    // 0 chunked full, 1 EOF sweep, 2 error sweep, 3 import through fs.FS
	enc := tp.Weighted([]int{5, 3, 2, 2}, "encoding") // 0 utf8, 1 utf16le+bom, 2 mutated bytes, 3 token soup
	utf16pos := tp.Chance(1, 4, "utf16pos")
	var data []byte
	encName := "utf8"
	switch enc {
	case 0:
		data = []byte(e.Text)
	case 1:
		data = toUTF16LE(e.Text)
		encName = "utf16le+bom"
	case 2:
		data = mutate(tp, []byte(e.Text))
		encName = "mutated"
		if tp.Chance(1, 3, "mut.utf16") {
			data = mutate(tp, toUTF16LE(e.Text))
			encName = "mutated-utf16"
		}
	case 3:
		data = []byte(tokenSoup(tp))
		encName = "token-soup"
		if tp.Chance(1, 4, "soup.utf16") {
			data = toUTF16LE(string(data))
			encName = "token-soup-utf16"
		}
	}
	pat := drawPattern(tp)
	smp := sample{Input: e.Name, Encoding: encName, Bytes: len(data), Pattern: pat.String()}
	res.Tracef("input=%s enc=%s bytes=%d utf16pos=%v mode=%d pat=%s", e.Name, encName, len(data), utf16pos, mode, pat)
	if os.Getenv("VSIM_DUMP") != "" {
		fmt.Fprintf(os.Stderr, "DUMP input=%s enc=%s mode=%d\n%q\n", e.Name, encName, mode, data)
	}
	res.Nontrivial = true
	res.SchedHash = harness.HashStrings([]string{e.Name, encName, fmt.Sprint(mode, utf16pos), pat.String(), string(data)})

	parses := 0
	check := func(k int, p pattern, what string) bool {
		// reference: one-shot delivery of exactly the delivered prefix
		ref, to := parseWith("f.d2", bytes.NewReader(data[:k]), utf16pos)
		parses++
		if to {
			res.Fail("C01", "O01.1", "one-shot parse of %s[:%d] did not terminate within %v", e.Name, k, parseWatchdog)
			return false
		}
		if ref.Panic != "" {
			res.Fail("C01", "O01.1", "one-shot parse of %s (%s) [:%d] crashed: %s", e.Name, encName, k, ref.Panic)
			return false
		}
		fr := newFaultReader(data, k, p)
		var rd io.Reader = fr
		if p.Bufio > 0 {
			rd = bufio.NewReaderSize(fr, p.Bufio)
		}
		got, to := parseWith("f.d2", rd, utf16pos)
		parses++
		res.Steps += fr.calls
		if to {
			res.Fail("C01", "O01.1", "%s: parse did not terminate within %v (k=%d, %s)", what, parseWatchdog, k, p)
			return false
		}
		if got.Panic != "" {
			res.Fail("C01", "O01.1", "%s: k=%d %s: %s", what, k, p, got.Panic)
			return false
		}
		if got.Nil {
			res.Fail("C01", "O01.1", "%s: k=%d %s: Parse returned a nil tree", what, k, p)
			return false
		}
		if p.ErrAtEnd == nil {
			res.Fault("eof_at_offset")
			if len(got.IOErrs) != 0 {
				res.Fail("C01", "O01.3", "%s: k=%d: io error reported although the stream ended with EOF", what, k)
				return false
			}
			if got.AST != ref.AST {
				res.Fail("C01", "O01.2", "%s: k=%d %s: tree differs from one-shot delivery of the same %d bytes\nchunked: %s\noneshot: %s", what, k, p, k, clip(got.AST), clip(ref.AST))
				return false
			}
			if strings.Join(got.Errs, "\n") != strings.Join(ref.Errs, "\n") {
				res.Fail("C01", "O01.2", "%s: k=%d %s: error list differs from one-shot delivery\nchunked: %q\noneshot: %q", what, k, p, got.Errs, ref.Errs)
				return false
			}
			return true
		}
		res.Fault("io_error_at_offset")
		if len(got.IOErrs) != 1 {
			res.Fail("C01", "O01.3", "%s: k=%d %s: want exactly one positioned io error, got %d (errors: %q)", what, k, p, len(got.IOErrs), got.Errs)
			return false
		}
		ie := got.IOErrs[0]
		// The failed stream must parse like one-shot delivery of the delivered prefix.
		// Narrow relaxation: in the UTF-16 branch an I/O failure (unlike EOF) may drop the
		// bytes of an incomplete trailing code unit / surrogate pair (<= 3 bytes), because
		// the transcoder only flushes incomplete input at EOF.
		maxDrop := 0
		if len(data) >= 2 && data[0] == 0xFF && data[1] == 0xFE && k > 2 {
			maxDrop = 3
		}
		var why string
		for drop := 0; drop <= maxDrop && k-drop >= 2*btoi(maxDrop > 0); drop++ {
			r := ref
			if drop > 0 {
				var to bool
				r, to = parseWith("f.d2", bytes.NewReader(data[:k-drop]), utf16pos)
				parses++
				if to || r.Panic != "" {
					continue
				}
				res.Probe("utf16_incomplete_tail_dropped_candidate")
			}
			switch {
			case ie.Range.Start != ie.Range.End || ie.Range.Path != "f.d2" || ie.Range.Start != r.End:
				why = fmt.Sprintf("io error at %v, but the delivered prefix ends at %v", ie.Range, r.End)
			case got.AST != r.AST:
				why = fmt.Sprintf("tree differs from one-shot parse of the delivered prefix\nfaulty : %s\noneshot: %s", clip(got.AST), clip(r.AST))
			case strings.Join(got.Errs, "\n") != strings.Join(r.Errs, "\n"):
				why = fmt.Sprintf("errors other than the io error differ from one-shot parse of the delivered prefix\nfaulty : %q\noneshot: %q", got.Errs, r.Errs)
			default:
				return true
			}
		}
		res.Fail("C01", "O01.3", "%s: k=%d %s: %s", what, k, p, why)
		return false
	}

	switch mode {
	case 0:
		smp.Mode = "chunked-full"
		check(len(data), pat, "chunked delivery")
	case 1, 2:
		p := pat
		smp.Mode = "eof-at-every-offset"
		if mode == 2 {
			p.ErrAtEnd = errSim
			smp.Mode = "error-at-every-offset"
		}
		L := len(data)
		limit := 1500
		if cfg.Thorough() {
			limit = 6000
		}
		if L <= limit {
			for k := 0; k <= L; k++ {
				if !check(k, p, smp.Mode) {
					break
				}
			}
		} else {
			n := 48
			for i := 0; i < n; i++ {
				k := tp.Draw(L+1, "offset")
				if !check(k, p, smp.Mode) {
					break
				}
			}
		}
	case 3:
		smp.Mode = "import-via-fs"
		runImport(&res, tp, e, data, pat, utf16pos, &parses)
	}
	smp.Parses = parses
	res.ProbeN("parses", parses)
	res.Probe("mode." + smp.Mode)
	res.Probe("enc." + encName)
	res.Sample = smp
	return res
}

func btoi(b bool) int {
	if b {
		return 1
	}
	return 0
}

func clip(s string) string {
	if len(s) > 600 {
		return s[:600] + "…"
	}
	return s
}

// ---------------------------------------------------------------- imports through fs.FS

type memFS struct {
	files   map[string][]byte
	pat     *pattern // nil: one-shot delivery
	limit   map[string]int
	openErr map[string]error
	res     *harness.Result
}

type memFile struct {
	name string
	r    io.Reader
	size int
}

func (f *memFile) Stat() (fs.FileInfo, error) { return nil, errors.New("stat not supported") }
func (f *memFile) Read(p []byte) (int, error) { return f.r.Read(p) }
func (f *memFile) Close() error               { return nil }

func (m *memFS) Open(name string) (fs.File, error) {
	if err := m.openErr[name]; err != nil {
		return nil, &fs.PathError{Op: "open", Path: name, Err: err}
	}
	b, ok := m.files[name]
	if !ok {
		return nil, &fs.PathError{Op: "open", Path: name, Err: fs.ErrNotExist}
	}
	if m.pat == nil {
		return &memFile{name: name, r: bytes.NewReader(b), size: len(b)}, nil
	}
	limit := len(b)
	if l, ok := m.limit[name]; ok && l < limit {
		limit = l
	}
	return &memFile{name: name, r: newFaultReader(b, limit, *m.pat), size: len(b)}, nil
}

type compileOut struct {
	Graph string
	Errs  string
	Panic string
}

func compileWith(main string, fsys fs.FS, utf16pos bool) (compileOut, bool) {
	ch := make(chan compileOut, 1)
	go func() {
		defer func() {
			if p := recover(); p != nil {
				if be, ok := p.(boundExceeded); ok {
					ch <- compileOut{Panic: fmt.Sprintf("reader-call bound exceeded (%d calls)", be.calls)}
					return
				}
				ch <- compileOut{Panic: fmt.Sprintf("panic: %v\n%s", p, trimStack(debug.Stack()))}
			}
		}()
		g, _, err := d2compiler.Compile("index.d2", strings.NewReader(main), &d2compiler.CompileOptions{FS: fsys, UTF16Pos: utf16pos})
		var o compileOut
		if err != nil {
			o.Errs = err.Error()
		}
		if g != nil {
			b, serr := d2graph.SerializeGraph(g)
			if serr != nil {
				o.Graph = "serialize error: " + serr.Error()
			} else {
				o.Graph = string(b)
			}
		}
		ch <- o
	}()
	select {
	case o := <-ch:
		return o, false
	case <-time.After(parseWatchdog):
		return compileOut{}, true
	}
}

func runImport(res *harness.Result, tp *tape.Tape, e corpus.Entry, data []byte, pat pattern, utf16pos bool, parses *int) {
	mains := []string{"x: @imp\n", "...@imp\n", "x: {\n  ...@imp\n}\ny: @imp.d2\n", "layers: {\n  l: @imp\n}\n"}
	main := mains[tp.Draw(len(mains), "import.main")]
	files := map[string][]byte{"imp.d2": data}
	for n, c := range e.Files {
		files[n] = []byte(c)
	}
	ref, to := compileWith(main, &memFS{files: files}, utf16pos)
	*parses++
	if to {
		res.Fail("C01", "O01.1", "import of %s: compile did not terminate", e.Name)
		return
	}
	if ref.Panic != "" {
		// A crash of the compiler proper on one-shot input is outside this slice (C07);
		// it is still a crash reached through Parse's stream path only if chunking matters.
		res.Probe("import.oneshot_compile_panic")
		res.Tracef("one-shot compile of an import of %s panicked: %s\nmain=%q\nimp.d2=%q", e.Name, panicSummary(ref.Panic), main, clip(string(data)))
		return
	}
	fault := tp.Weighted([]int{4, 2, 2}, "import.fault") // 0 chunked, 1 read error mid-file, 2 open error
	m := &memFS{files: files, pat: &pat, res: res}
	switch fault {
	case 1:
		p := pat
		p.ErrAtEnd = errSim
		m.pat = &p
		k := 0
		if len(data) > 0 {
			k = tp.Draw(len(data)+1, "import.errat")
		}
		m.limit = map[string]int{"imp.d2": k}
		res.Fault("import_read_error")
	case 2:
		m.openErr = map[string]error{"imp.d2": errSim}
		res.Fault("import_open_error")
	default:
		res.Fault("import_chunked")
	}
	got, to := compileWith(main, m, utf16pos)
	*parses++
	if to {
		res.Fail("C01", "O01.1", "import of %s (%s): compile did not terminate", e.Name, pat)
		return
	}
	if got.Panic != "" {
		if f := innermostD2Frame(got.Panic); strings.HasPrefix(got.Panic, "panic:") && !strings.Contains(f, "/d2parser/") && !strings.Contains(f, "/d2ast/") {
			// the compiler proper crashed on what the faulty file system delivered (a
			// truncated file is another program): outside the parser's stream slice
			res.Probe("import.compile_panic_outside_the_parser")
			return
		}
		res.Fail("C01", "O01.1", "import of %s, fault=%d, %s: %s", e.Name, fault, pat, got.Panic)
		return
	}
	switch fault {
	case 0:
		if got.Graph != ref.Graph || got.Errs != ref.Errs {
			res.Fail("C01", "O01.2", "import of %s delivered in chunks (%s) compiles differently from one-shot delivery\nchunked errs: %q\noneshot errs: %q\nchunked graph: %s\noneshot graph: %s", e.Name, pat, got.Errs, ref.Errs, clip(got.Graph), clip(ref.Graph))
		}
	case 1:
		if !strings.Contains(got.Errs, "verif-simulated-io-failure") {
			res.Fail("C01", "O01.3", "import of %s: read error at offset %d was swallowed (errors: %q)", e.Name, m.limit["imp.d2"], clip(got.Errs))
		}
	case 2:
		if !strings.Contains(got.Errs, "verif-simulated-io-failure") {
			res.Fail("C01", "O01.3", "import of %s: open error was swallowed (errors: %q)", e.Name, clip(got.Errs))
		}
	}
}
