package streamsim

// C07, import slice: d2compiler.Compile over a set of importable files that is served by a
// simulated file system. The tape builds the import graph (spread and value imports, import
// keys, nested directories, cycles of every length, missing files, directories, absolute
// paths), decides how every Open and Read behaves (one-shot, chunked, short and empty
// reads, open error, read error in the middle of a file, a directory, a file whose content
// changes between two opens), and the run is checked against a reference model of the
// import graph: no crash, termination within a budget of file-system operations, a graph or
// positioned errors, faults never swallowed, cycles always reported, and delivery never
// changing the result.

import (
	"bytes"
	"errors"
	"fmt"
	"io"
	"io/fs"
	"os"
	"path"
	"runtime/debug"
	"sort"
	"strings"
	"time"

	"oss.terrastruct.com/d2/d2compiler"
	"oss.terrastruct.com/d2/d2graph"
	"oss.terrastruct.com/d2/d2parser"

	"verifsim/corpus"
	"verifsim/harness"
	"verifsim/tape"
)

var impNames = []string{"a.d2", "lib/b.d2", "lib/deep/c.d2", "x y.d2"}

// relImport renders the import path from the file `from` to the file `to` the way a user
// writes it: relative to the importing file's directory, usually without the extension.
func relImport(from, to string, keepExt bool) string {
	fd := strings.Split(path.Dir(from), "/")
	if path.Dir(from) == "." {
		fd = nil
	}
	td := strings.Split(path.Dir(to), "/")
	if path.Dir(to) == "." {
		td = nil
	}
	i := 0
	for i < len(fd) && i < len(td) && fd[i] == td[i] {
		i++
	}
	var parts []string
	for range fd[i:] {
		parts = append(parts, "..")
	}
	parts = append(parts, td[i:]...)
	parts = append(parts, path.Base(to))
	p := strings.Join(parts, "/")
	if !keepExt {
		p = strings.TrimSuffix(p, ".d2")
	}
	if strings.ContainsAny(p, " ") || strings.HasPrefix(p, "..") {
		return "\"" + p + "\""
	}
	return p
}

type impEdge struct {
	to   int // index into files; -1: not a file of the set (missing, directory, absolute)
	text string
}

type impFile struct {
	name  string
	body  string
	edges []impEdge
}

var impSnippets = []string{
	"p1 -> p2: link\n", "box: {\n  inner1\n  inner2 -> inner1\n}\n", "sub: {\n  leaf\n}\n", "lbl: ${who}\n", "...${extra}\n",
	"classes: {\n  c: {\n    style.fill: honeydew\n  }\n}\nstyled.class: c\n", "*.style.opacity: 0.5\n", "***.shape: circle\n",
	"layers: {\n  l1: {\n    q1\n  }\n}\n", "scenarios: {\n  s1: {\n    q2\n  }\n}\n", "vars: {\n  who: local\n}\n", "t: |md\n  # title\n|\n",
	"(p1 -> p2)[0].style.stroke: red\n", "tbl: {\n  shape: sql_table\n  id: int\n}\n", "n: null\n", "arr: [1; 2; ${who}]\n",
	// globs that ask whether something is a container or a leaf make the compiler look into
	// imports ahead of importing them
	"*: {\n  &leaf: true\n  style.fill: red\n}\n", "** -> **\n", "**: {\n  &leaf: false\n  style.stroke: blue\n}\n", "* -> *: {\n  &src.leaf: true\n}\n",
}

// simFS serves the file set with tape-chosen behaviour per open.
type simFS struct {
	files    map[string]*impFile
	alt      map[string]string // content served from the second open on (a concurrent editor)
	plan     func(name string, nth int) openPlan
	opens    map[string]int
	total    int
	budget   int
	hardErrs []string // names whose open or read was made to fail while actually used
	res      *harness.Result
}

type openPlan struct {
	kind  int // 0 one-shot, 1 chunked, 2 open error, 3 read error at offset, 4 is a directory
	pat   pattern
	errAt int
}

type budgetExceeded struct{ opens int }

type dirFile struct{ name string }

func (d dirFile) Stat() (fs.FileInfo, error) { return nil, errors.New("stat not supported") }
func (d dirFile) Read([]byte) (int, error) {
	return 0, &fs.PathError{Op: "read", Path: d.name, Err: errors.New("is a directory")}
}
func (d dirFile) Close() error { return nil }

func (m *simFS) Open(name string) (fs.File, error) {
	m.total++
	if m.total > m.budget {
		panic(budgetExceeded{m.total})
	}
	name = path.Clean(name)
	if name == "lib" || name == "lib/deep" {
		m.res.Fault("import_of_a_directory")
		return dirFile{name}, nil
	}
	f, ok := m.files[name]
	if !ok {
		return nil, &fs.PathError{Op: "open", Path: name, Err: fs.ErrNotExist}
	}
	m.opens[name]++
	body := f.body
	if alt, ok := m.alt[name]; ok && m.opens[name] > 1 {
		body = alt
		m.res.Fault("import_content_changed_between_opens")
	}
	pl := m.plan(name, m.opens[name])
	switch pl.kind {
	case 2:
		m.res.Fault("import_open_error")
		m.hardErrs = append(m.hardErrs, name)
		return nil, &fs.PathError{Op: "open", Path: name, Err: errSim}
	case 3:
		m.res.Fault("import_read_error")
		m.hardErrs = append(m.hardErrs, name)
		p := pl.pat
		p.ErrAtEnd = errSim
		k := pl.errAt
		if k > len(body) {
			k = len(body)
		}
		return &memFile{name: name, r: newFaultReader([]byte(body), k, p), size: len(body)}, nil
	case 4:
		m.res.Fault("import_of_a_directory")
		return dirFile{name}, nil
	case 1:
		m.res.Fault("import_chunked")
		return &memFile{name: name, r: newFaultReader([]byte(body), len(body), pl.pat), size: len(body)}, nil
	}
	return &memFile{name: name, r: bytes.NewReader([]byte(body)), size: len(body)}, nil
}

type c07Out struct {
	Graph     string
	Errs      []string
	Unpos     []string // errors without a usable position
	NotParse  string   // err is not a *d2parser.ParseError
	Panic     string
	Both      bool
	TimedOut  bool
	ReadCalls int
}

func compileC07(main string, fsys fs.FS, utf16pos bool) c07Out {
	ch := make(chan c07Out, 1)
	go func() {
		var o c07Out
		defer func() {
			if p := recover(); p != nil {
				switch x := p.(type) {
				case budgetExceeded:
					o.Panic = fmt.Sprintf("more than %d file opens: the compilation does not stop importing", x.opens-1)
				case boundExceeded:
					o.Panic = fmt.Sprintf("reader-call bound exceeded (%d calls on one file)", x.calls)
				default:
					o.Panic = fmt.Sprintf("panic: %v\n%s", p, trimStack(debug.Stack()))
				}
			}
			ch <- o
		}()
		g, _, err := d2compiler.Compile("index.d2", strings.NewReader(main), &d2compiler.CompileOptions{FS: fsys, UTF16Pos: utf16pos})
		if err != nil {
			var pe *d2parser.ParseError
			if errors.As(err, &pe) {
				for _, e := range pe.Errors {
					o.Errs = append(o.Errs, e.Range.String()+"|"+e.Message)
					r := e.Range
					if r.Path == "" || e.Message == "" || r.Start.Line < 0 || r.End.Line < r.Start.Line || (r.End.Line == r.Start.Line && r.End.Column < r.Start.Column) {
						o.Unpos = append(o.Unpos, fmt.Sprintf("%q at %+v", e.Message, r))
					}
				}
				if len(pe.Errors) == 0 {
					o.NotParse = "an error value with an empty error list"
				}
			} else {
				o.NotParse = fmt.Sprintf("%T: %v", err, err)
			}
		}
		if g != nil {
			if err != nil {
				o.Both = true
			}
			b, serr := d2graph.SerializeGraph(g)
			if serr != nil {
				o.Graph = "serialize error: " + serr.Error()
			} else {
				o.Graph = string(b)
			}
		} else if err == nil {
			o.NotParse = "neither a graph nor an error"
		}
	}()
	select {
	case o := <-ch:
		return o
	case <-time.After(parseWatchdog):
		return c07Out{TimedOut: true}
	}
}

// panicInImportCode: the innermost frame of d2 in the panic's stack is in d2ir/import.go,
// i.e. the import machinery itself crashed (in the slice), not the compiler proper on what
// an import delivered.
func panicInImportCode(p string) bool {
	return strings.Contains(innermostD2Frame(p), "/d2ir/import.go:")
}

// panicSummary is what goes into the trace: the message and where in d2 it happened (the
// full text has goroutine numbers and addresses, which differ from process to process).
func panicSummary(p string) string {
	first := p
	if i := strings.IndexByte(p, '\n'); i >= 0 {
		first = p[:i]
	}
	return first + " at " + innermostD2Frame(p)
}

// innermostD2Frame returns the file:line of the innermost frame of d2 in a recovered
// panic's stack ("" if none).
func innermostD2Frame(p string) string {
	lines := strings.Split(p, "\n")
	seenPanic := false
	for i, l := range lines {
		if strings.HasPrefix(l, "panic(") {
			seenPanic = true
			continue
		}
		if seenPanic && strings.HasPrefix(l, "oss.terrastruct.com/d2/") && i+1 < len(lines) {
			return strings.TrimSpace(lines[i+1])
		}
	}
	return ""
}

type c07Sample struct {
	Main   string   `json:"main"`
	Files  []string `json:"files"`
	Edges  []string `json:"import_edges"`
	Cyclic bool     `json:"cycle_reachable"`
	Opens  int      `json:"opens"`
}

func runC07(cfg harness.Config, idx int, tp *tape.Tape) harness.Result {
	var res harness.Result
	c := loadCorpus()
	res.Nontrivial = true

	// ---- the file set
	n := 1 + tp.Draw(len(impNames), "c07.nfiles")
	files := make([]*impFile, n)
	for i := range files {
		files[i] = &impFile{name: impNames[i]}
	}
	form := func(from string, to string, toIdx int) impEdge {
		p := relImport(from, to, tp.Chance(1, 5, "c07.keepext"))
		switch tp.Draw(5, "c07.form") {
		case 0:
			return impEdge{toIdx, "...@" + p + "\n"}
		case 1:
			return impEdge{toIdx, fmt.Sprintf("k%d: @%s\n", tp.Draw(3, "c07.key"), p)}
		case 2:
			return impEdge{toIdx, fmt.Sprintf("m%d: {\n  ...@%s\n}\n", tp.Draw(3, "c07.key"), p)}
		case 3:
			return impEdge{toIdx, fmt.Sprintf("ik: @%s.sub\n", p)}
		default:
			return impEdge{toIdx, fmt.Sprintf("layers: {\n  il%d: {\n    ...@%s\n  }\n}\n", tp.Draw(2, "c07.key"), p)}
		}
	}
	density := 15 + tp.Draw(45, "c07.density")
	acyclicOnly := tp.Chance(1, 3, "c07.acyclic")
	var edgeDesc []string
	for i, f := range files {
		var sb strings.Builder
		for k, m := 0, 1+tp.Draw(4, "c07.snippets"); k < m; k++ {
			sb.WriteString(impSnippets[tp.Draw(len(impSnippets), "c07.snippet")])
		}
		for j := range files {
			if acyclicOnly && j <= i {
				continue
			}
			if tp.Draw(100, "c07.edge") < density {
				e := form(f.name, files[j].name, j)
				f.edges = append(f.edges, e)
				sb.WriteString(e.text)
				edgeDesc = append(edgeDesc, f.name+" -> "+files[j].name)
			}
		}
		if tp.Chance(1, 8, "c07.odd") {
			odd := []string{"...@nope\n", "d: @lib\n", "abs: @/abs/file\n", "...@\"../../outside\"\n", "e: @\n", "...@nope.d2.d2\n"}
			sb.WriteString(odd[tp.Draw(len(odd), "c07.oddwhich")])
		}
		f.body = sb.String()
	}
	// ---- main: a harvested or generated program with imports of the set in front
	var mainSB strings.Builder
	if tp.Chance(1, 2, "c07.vars") {
		mainSB.WriteString("vars: {\n  who: World\n  extra: {\n    from_var\n  }\n}\n")
	}
	var mainEdges []impEdge
	for j := range files {
		if j == 0 || tp.Chance(1, 3, "c07.mainedge") {
			e := form("index.d2", files[j].name, j)
			mainEdges = append(mainEdges, e)
			mainSB.WriteString(e.text)
			edgeDesc = append(edgeDesc, "index.d2 -> "+files[j].name)
		}
	}
	var e corpus.Entry
	if len(c) > 0 && tp.Chance(2, 3, "c07.corpusmain") {
		e = c[idx%len(c)]
		if len(e.Text) > 4000 {
			e = corpus.Entry{Name: "short", Text: "tail -> end\n"}
		}
	} else {
		e = corpus.Entry{Name: "generated", Text: "tail -> end\n"}
	}
	mainSB.WriteString(e.Text)
	main := mainSB.String()
	utf16pos := tp.Chance(1, 4, "utf16pos")

	// ---- reference model: is a cycle reachable from index.d2?
	cyc := false
	state := make([]int, n) // 0 new, 1 on the stack, 2 done
	parses := make([]bool, n)
	for i, f := range files {
		// a file with a syntax error is not compiled at all: its imports are never followed
		_, err := d2parser.Parse(f.name, strings.NewReader(f.body), nil)
		parses[i] = err == nil
	}
	var dfs func(i int)
	dfs = func(i int) {
		state[i] = 1
		if !parses[i] {
			state[i] = 2
			return
		}
		for _, ed := range files[i].edges {
			if ed.to < 0 {
				continue
			}
			if state[ed.to] == 1 {
				cyc = true
			} else if state[ed.to] == 0 {
				dfs(ed.to)
			}
		}
		state[i] = 2
	}
	for _, ed := range mainEdges {
		if state[ed.to] == 0 {
			dfs(ed.to)
		}
	}

	byName := map[string]*impFile{}
	var names []string
	for _, f := range files {
		byName[f.name] = f
		names = append(names, f.name)
	}
	for n2, c2 := range e.Files { // files a harvested test table supplied
		if _, ok := byName[n2]; !ok {
			byName[n2] = &impFile{name: n2, body: c2}
		}
	}
	res.Tracef("main=%q files=%v edges=%v cyclic=%v", clip(main), names, edgeDesc, cyc)
	res.SchedHash = harness.HashStrings(append([]string{main}, edgeDesc...))
	budget := 100000 // leaf-sensitive globs make the compiler look into imports ahead of importing them: thousands of opens for four files are normal
	if v := os.Getenv("VSIM_C07_BUDGET"); v != "" {
		fmt.Sscan(v, &budget)
	}
	dirKinds := 0

	// ---- 1. one-shot, fault-free
	ref := &simFS{files: byName, plan: func(string, int) openPlan { return openPlan{} }, opens: map[string]int{}, budget: budget, res: &res}
	r0 := compileC07(main, ref, utf16pos)
	verdict := func(what string, o c07Out) bool {
		switch {
		case o.TimedOut:
			res.Fail("C07", "O07.1", "%s: compilation did not finish within %v\nmain:\n%s", what, parseWatchdog, clip(main))
		case o.Panic != "":
			res.Fail("C07", "O07.1", "%s: %s\nmain:\n%s\nfiles: %s", what, o.Panic, clip(main), describe(files))
		case o.Both || o.NotParse != "":
			res.Fail("C07", "O07.2", "%s: the result is not 'a diagram or a list of positioned errors': both=%v %s\nmain:\n%s", what, o.Both, o.NotParse, clip(main))
		case len(o.Unpos) > 0:
			res.Fail("C07", "O07.2", "%s: errors without a source position: %v\nmain:\n%s", what, o.Unpos, clip(main))
		default:
			return true
		}
		return false
	}
	if strings.HasPrefix(r0.Panic, "panic:") && !panicInImportCode(r0.Panic) {
		// The compiler proper crashes on this program however its files are delivered: that
		// is the input-space half of C07, which this slice samples but does not decide
		// (DESIGN.md). It is counted and shown in the evidence, not reported.
		res.Probe("input_space_crash_observed_outside_the_slice")
		res.Tracef("one-shot compile panicked (input-space, outside the slice): %s\nmain=%q\nfiles: %s", panicSummary(r0.Panic), clip(main), describe(files))
		res.Sample = c07Sample{Main: clip(main), Files: names, Edges: edgeDesc, Cyclic: cyc}
		return res
	}
	if !verdict("one-shot delivery", r0) {
		return res
	}
	mainParses := true
	if _, err := d2parser.Parse("index.d2", strings.NewReader(main), nil); err != nil {
		mainParses = false
	}
	// The model knows every import only when the harvested part of index.d2 has none of its own.
	modelExact := mainParses && !strings.Contains(e.Text, "@") && len(e.Files) == 0
	reported := strings.Contains(strings.Join(r0.Errs, "\n"), "detected cyclic import chain")
	if !modelExact {
		res.Probe("cycle_oracle_skipped_model_not_exact")
	} else if cyc && !reported {
		// The compiler stops compiling a file at some errors, so an import statement after
		// such an error is never reached and its cycle never seen: that is fine as long as
		// the compilation does report errors. A diagram out of a cyclic import graph is not.
		if r0.Graph != "" || len(r0.Errs) == 0 {
			res.Fail("C07", "O07.3", "an import cycle is reachable from index.d2 (%v) but the compilation succeeded without reporting it\nmain:\n%s\nfiles: %s", edgeDesc, clip(main), describe(files))
			return res
		}
		res.Probe("import_cycle_masked_by_an_earlier_error")
	}
	if modelExact && !cyc && reported {
		res.Fail("C07", "O07.3", "a cyclic-import error was reported but the import graph has no cycle reachable from index.d2 (%v); errors: %v\nfiles: %s", edgeDesc, r0.Errs, describe(files))
		return res
	}
	if cyc {
		res.Probe("import_cycle_reachable")
	}
	res.ProbeN("file_opens", ref.total)

	// ---- 2. the same set under a tape-chosen delivery and fault plan
	// A broken file stays broken: the kind of fault is chosen per file (the compiler may
	// open an imported file more than once, and the first open may be a tentative one whose
	// failure it rightly ignores); how the bytes are cut into reads is chosen per open.
	kinds := map[string]openPlan{}
	hard := tp.Chance(1, 2, "c07.hardfaults")
	flt := &simFS{files: byName, opens: map[string]int{}, budget: budget, res: &res, alt: map[string]string{}}
	flt.plan = func(name string, nth int) openPlan {
		k, ok := kinds[name]
		if !ok {
			w := []int{3, 5, 0, 0, 0}
			if hard {
				w = []int{3, 5, 1, 2, 1}
			}
			k = openPlan{kind: tp.Weighted(w, "c07.plan")}
			if k.kind == 3 {
				k.errAt = tp.Draw(200, "c07.errat")
			}
			if k.kind == 4 {
				dirKinds++
			}
			kinds[name] = k
		}
		k.pat = drawPattern(tp)
		k.pat.Bufio = 0
		return k
	}
	changed := false
	if hard && tp.Chance(1, 4, "c07.change") && n > 0 {
		f := files[tp.Draw(n, "c07.changewhich")]
		flt.alt[f.name] = "changed_" + strings.TrimSuffix(path.Base(f.name), ".d2") + ": now without imports\n"
		changed = true
	}
	r1 := compileC07(main, flt, utf16pos)
	if strings.HasPrefix(r1.Panic, "panic:") && !panicInImportCode(r1.Panic) {
		// what a failing or changing file system delivered is another program, and the
		// compiler proper crashed on it: input space again (see above)
		res.Probe("input_space_crash_observed_outside_the_slice")
		res.Tracef("compile under faults panicked in the compiler proper (input-space, outside the slice): %s", panicSummary(r1.Panic))
		return res
	}
	if !verdict("chunked/faulty delivery", r1) {
		return res
	}
	if len(flt.hardErrs) == 0 && !changed && dirKinds == 0 {
		// delivery only: nothing may change
		if r1.Graph != r0.Graph || strings.Join(r1.Errs, "\n") != strings.Join(r0.Errs, "\n") {
			res.Fail("C07", "O07.4", "the same files delivered in chunks compile differently from one-shot delivery\nchunked errs: %q\noneshot errs: %q\nchunked graph: %s\noneshot graph: %s\nmain:\n%s", r1.Errs, r0.Errs, clip(r1.Graph), clip(r0.Graph), clip(main))
			return res
		}
		res.Probe("delivery_only_runs_equal_to_oneshot")
	}
	if len(flt.hardErrs) > 0 {
		joined := strings.Join(r1.Errs, "\n")
		if r1.Graph != "" || !strings.Contains(joined, "verif-simulated-io-failure") {
			res.Fail("C07", "O07.4", "a failing open/read of %v was swallowed: graph=%v errors=%q\nmain:\n%s", flt.hardErrs, r1.Graph != "", r1.Errs, clip(main))
			return res
		}
		res.Probe("hard_faults_surfaced_as_errors")
	}
	res.Sample = c07Sample{Main: clip(main), Files: names, Edges: edgeDesc, Cyclic: cyc, Opens: ref.total}
	res.Steps = ref.total + flt.total
	return res
}

func describe(files []*impFile) string {
	var parts []string
	for _, f := range files {
		parts = append(parts, fmt.Sprintf("%s=%q", f.name, f.body))
	}
	sort.Strings(parts)
	return clip(strings.Join(parts, " "))
}

var _ = io.EOF
