// Package d2gen generates D2 scripts from the tape, biased towards putting at least three
// entries into every collection the pipeline iterates (children, classes, vars, boards,
// edges between the same endpoints, style attributes, grid cells, sequence actors, table
// columns), so that a dependence on map iteration order has something to show.
package d2gen

import (
	"fmt"
	"strings"

	"verifsim/tape"
)

var shapes = []string{"rectangle", "square", "circle", "oval", "diamond", "hexagon", "cylinder", "queue", "package", "step", "callout", "stored_data", "person", "page", "parallelogram", "document", "cloud"}
var colors = []string{"red", "\"#0D32B2\"", "green", "\"#f4a261\"", "honeydew", "\"#e9c46a\""}
var words = []string{"alpha", "beta", "gamma", "delta", "eps", "zeta", "eta", "theta", "iota", "kappa", "lambda", "mu"}

type gen struct {
	tp *tape.Tape
	sb strings.Builder
	n  int
}

func (g *gen) id() string {
	g.n++
	return fmt.Sprintf("%s%d", words[g.tp.Draw(len(words), "gen.word")], g.n)
}

func (g *gen) styleBlock(ind string) {
	if !g.tp.Chance(1, 3, "gen.style") {
		return
	}
	attrs := []string{
		"fill: " + colors[g.tp.Draw(len(colors), "gen.color")],
		"stroke: " + colors[g.tp.Draw(len(colors), "gen.color")],
		fmt.Sprintf("opacity: 0.%d", 3+g.tp.Draw(6, "gen.opacity")),
		fmt.Sprintf("stroke-width: %d", 1+g.tp.Draw(5, "gen.sw")),
		"shadow: true", "bold: true", "italic: true", fmt.Sprintf("font-size: %d", 10+g.tp.Draw(20, "gen.fs")),
		fmt.Sprintf("border-radius: %d", g.tp.Draw(12, "gen.br")), "stroke-dash: 3", "multiple: true", "3d: true",
	}
	k := 1 + g.tp.Draw(4, "gen.nstyle")
	fmt.Fprintf(&g.sb, "%sstyle: {\n", ind)
	for i := 0; i < k; i++ {
		fmt.Fprintf(&g.sb, "%s  %s\n", ind, attrs[(g.tp.Draw(len(attrs), "gen.attr")+i)%len(attrs)])
	}
	fmt.Fprintf(&g.sb, "%s}\n", ind)
}

func (g *gen) container(ind string, depth int, ids *[]string, prefix string) {
	k := 3 + g.tp.Draw(3, "gen.children")
	var local []string
	for i := 0; i < k; i++ {
		id := g.id()
		local = append(local, id)
		*ids = append(*ids, prefix+id)
		switch {
		case depth < 2 && g.tp.Chance(1, 4, "gen.nest"):
			fmt.Fprintf(&g.sb, "%s%s: {\n", ind, id)
			g.container(ind+"  ", depth+1, ids, prefix+id+".")
			g.styleBlock(ind + "  ")
			fmt.Fprintf(&g.sb, "%s}\n", ind)
		case g.tp.Chance(1, 6, "gen.md"):
			fmt.Fprintf(&g.sb, "%s%s: |md\n%s  # %s\n%s  - one\n%s  - two `code`\n%s|\n", ind, id, ind, id, ind, ind, ind)
		case g.tp.Chance(1, 8, "gen.code"):
			fmt.Fprintf(&g.sb, "%s%s: |go\n%s  func %s() { return }\n%s|\n", ind, id, ind, id, ind)
		default:
			fmt.Fprintf(&g.sb, "%s%s: \"%s %d\" {\n%s  shape: %s\n", ind, id, strings.ToUpper(id[:1])+id[1:], i, ind, shapes[g.tp.Draw(len(shapes), "gen.shape")])
			g.styleBlock(ind + "  ")
			if g.tp.Chance(1, 4, "gen.class") {
				// a list of classes that set the same attributes, drawn with repetition:
				// the order in which they are applied decides the result
				var names []string
				for k, m := 0, 2+g.tp.Draw(3, "gen.class.n"); k < m; k++ {
					names = append(names, fmt.Sprintf("c%d", 1+g.tp.Draw(3, "gen.class.which")))
				}
				fmt.Fprintf(&g.sb, "%s  class: [%s]\n", ind, strings.Join(names, "; "))
			}
			if g.tp.Chance(1, 8, "gen.tooltip") {
				fmt.Fprintf(&g.sb, "%s  tooltip: tip for %s\n", ind, id)
			}
			fmt.Fprintf(&g.sb, "%s}\n", ind)
		}
	}
	ne := 2 + g.tp.Draw(4, "gen.edges")
	arrows := []string{"->", "<-", "<->", "--"}
	for i := 0; i < ne; i++ {
		a := local[g.tp.Draw(len(local), "gen.src")]
		b := local[g.tp.Draw(len(local), "gen.dst")]
		fmt.Fprintf(&g.sb, "%s%s %s %s", ind, a, arrows[g.tp.Draw(len(arrows), "gen.arrow")], b)
		if g.tp.Chance(1, 2, "gen.elabel") {
			fmt.Fprintf(&g.sb, ": %s", words[g.tp.Draw(len(words), "gen.word")])
		}
		if g.tp.Chance(1, 6, "gen.eclass") {
			fmt.Fprintf(&g.sb, " {\n%s  class: [c%d; c%d; c%d]\n%s}", ind, 1+g.tp.Draw(3, "gen.class.which"), 1+g.tp.Draw(3, "gen.class.which"), 1+g.tp.Draw(3, "gen.class.which"), ind)
		} else if g.tp.Chance(1, 4, "gen.estyle") {
			heads := []string{"triangle", "arrow", "diamond", "circle", "box", "cross", "cf-one", "cf-one-required", "cf-many", "cf-many-required"}
			head := func() string {
				h := heads[g.tp.Draw(len(heads), "gen.head")]
				f := ""
				if g.tp.Chance(1, 2, "gen.head.filled") {
					f = fmt.Sprintf("; style.filled: %v", g.tp.Chance(1, 2, "gen.head.fill"))
				}
				return fmt.Sprintf("{shape: %s%s}", h, f)
			}
			fmt.Fprintf(&g.sb, " {\n%s  style.stroke: %s\n%s  style.animated: %v\n%s  source-arrowhead: 1 %s\n%s  target-arrowhead: * %s\n%s}", ind, colors[g.tp.Draw(len(colors), "gen.color")], ind, g.tp.Chance(1, 2, "gen.animated"), ind, head(), ind, head(), ind)
		}
		g.sb.WriteString("\n")
	}
}

// Family returns a few scripts that import the same files but define the variables those
// files substitute differently (or not at all): what one compilation learns about an
// imported file must not leak into the next one.
func Family(tp *tape.Tape) ([]string, map[string]string) {
	files := map[string]string{
		"tpl.d2":   "env: {\n  label: ${who} Environment\n  vm: \"box of ${who}\"\n  note: |md\n    # for ${who}\n  |\n}\ncaption: hello-${who}\n",
		"inner.d2": "leaf: ${who}-${suffix}\n",
	}
	names := []string{"Dev", "Qa", "Prod", "Stage"}
	n := 2 + tp.Draw(2, "family.n")
	var scripts []string
	for i := 0; i < n; i++ {
		var sb strings.Builder
		who := names[(tp.Draw(len(names), "family.who")+i)%len(names)]
		switch tp.Draw(4, "family.shape") {
		case 0:
			fmt.Fprintf(&sb, "vars: {\n  who: %s\n  suffix: s%d\n}\n...@tpl\nx: @inner\n", who, i)
		case 1:
			fmt.Fprintf(&sb, "a: {\n  vars: {\n    who: %s\n  }\n  ...@tpl\n}\nb: {\n  vars: {\n    who: %s%d\n  }\n  ...@tpl\n}\n", who, who, i)
		case 2:
			fmt.Fprintf(&sb, "vars: {\n  suffix: only-suffix-%d\n}\n...@tpl\n", i) // who unresolved: an error
		case 3:
			fmt.Fprintf(&sb, "vars: {\n  who: %s\n  suffix: z\n}\nlayers: {\n  l1: {\n    ...@tpl\n  }\n  l2: {\n    y: @inner\n  }\n}\n", who)
		}
		scripts = append(scripts, sb.String())
	}
	return scripts, files
}

// errorRich emits constructs whose compilation reports several errors, some of them
// repeated (a glob or a scenario re-evaluates the key) and some sharing a position.
func (g *gen) errorRich() {
	tp := g.tp
	// Mistakes of the IR stage (unresolved substitutions) end a compilation before the graph
	// compiler runs; two scripts in five hold only mistakes that the graph compiler finds.
	stage := tp.Weighted([]int{2, 2, 1}, "err.stage") // 0 IR-stage only, 1 graph-compiler stage only, 2 both
	ir := stage != 1
	if ir && tp.Chance(1, 2, "err.array") {
		g.sb.WriteString("ex.class: [${nope1}; ${nope2}; ${nope3}]\n")
	}
	if !ir {
		g.errorRichCompileStage()
		return
	}
	if tp.Chance(1, 2, "err.glob") {
		g.sb.WriteString("*.label: ${missing_in_glob}\n")
	}
	if tp.Chance(1, 2, "err.multi") {
		g.sb.WriteString("ey: ${u1} and ${u2} {\n  tooltip: ${u3}\n  link: ${u1}\n}\n")
	}
	if tp.Chance(1, 2, "err.scenario") {
		g.sb.WriteString("scenarios: {\n  s1: {\n    extra: ${only_in_s1}\n  }\n  s2: {\n    extra: ${only_in_s2}\n  }\n}\n")
	}
	if tp.Chance(1, 3, "err.spreadvar") {
		g.sb.WriteString("ew: {\n  ...${not_a_map}\n}\n")
	}
	if stage == 0 {
		return
	}
	g.errorRichCompileStage()
}

func (g *gen) errorRichCompileStage() {
	tp := g.tp
	if tp.Chance(1, 3, "err.misc") {
		g.sb.WriteString("ez.shape: no_such_shape\nez.style.opacity: 7\nez -> ez.missing.deep: {\n  style.stroke-width: 99\n}\n")
	}
	if tp.Chance(2, 3, "err.boards") {
		// sibling boards that each hold a mistake only the graph compiler finds (after the
		// IR is built): the error list is shared by all boards
		kind := []string{"layers", "scenarios", "steps"}[tp.Draw(3, "err.boards.kind")]
		mistakes := []string{"bx.style.opacity: 7", "bx: {\n      shape: circle\n      width: 10\n      height: 20\n    }", "bx.style.3d: true\n    bx.shape: circle", "bx: {\n      constraint: primary_key\n    }", "bx.style.stroke-width: 99", "bx.near: nowhere"}
		fmt.Fprintf(&g.sb, "%s: {\n", kind)
		for i, n := 0, 3+tp.Draw(4, "err.boards.n"); i < n; i++ {
			fmt.Fprintf(&g.sb, "  eb%d: {\n    %s\n  }\n", i, strings.ReplaceAll(mistakes[tp.Draw(len(mistakes), "err.boards.which")], "bx", fmt.Sprintf("bx%d", i)))
		}
		g.sb.WriteString("}\n")
	}
}

// repeated emits values that one compilation validates more than once: a class applied to
// several shapes, a base board inherited by scenarios and steps, a glob applied to several
// targets. Some of the values are valid, some are not (malformed Markdown, out-of-domain
// attributes), so that anything a compilation remembers about a value it has already seen
// (a cache, a de-duplication of errors) shows when the same script is compiled again or
// next to another script that shares the value.
func (g *gen) repeated() {
	tp := g.tp
	mds := []string{"plain *markdown* text", "line one<br>", "# title <br> x", "<span>ok</span>", "<b>unclosed", "a & b", "<img src=x>"}
	vals := []string{"style.opacity: 7", "style.opacity: 0.4", "shape: no_such_shape", "shape: hexagon", "style.stroke-width: 99", "style.stroke-width: 2",
		"near: nowhere-at-all", "width: -4", "width: 120", "style.font-size: 3", "style.fill-pattern: plaid", "style.text-transform: shouty", "link: https://example.com", "style.border-radius: 5"}
	md := func() string { return mds[tp.Draw(len(mds), "rep.md")] }
	g.sb.WriteString("classes: {\n")
	nc := 1 + tp.Draw(3, "rep.nclasses")
	for i := 0; i < nc; i++ {
		fmt.Fprintf(&g.sb, "  r%d: {\n", i)
		switch tp.Draw(4, "rep.kind") {
		case 0:
			fmt.Fprintf(&g.sb, "    label: |md\n      %s\n    |\n", md())
		case 1:
			fmt.Fprintf(&g.sb, "    tooltip: |md %s |\n", md())
		case 2:
			fmt.Fprintf(&g.sb, "    %s\n", vals[tp.Draw(len(vals), "rep.val")])
		case 3:
			fmt.Fprintf(&g.sb, "    label: |md\n      %s\n    |\n    %s\n", md(), vals[tp.Draw(len(vals), "rep.val")])
		}
		g.sb.WriteString("  }\n")
	}
	g.sb.WriteString("}\n")
	users := 2 + tp.Draw(3, "rep.users")
	for i := 0; i < users; i++ {
		fmt.Fprintf(&g.sb, "ru%d.class: r%d\n", i, tp.Draw(nc, "rep.which"))
	}
	if tp.Chance(1, 2, "rep.base") {
		fmt.Fprintf(&g.sb, "rbase: |md\n  %s\n|\nrbase2: {\n  %s\n}\n", md(), vals[tp.Draw(len(vals), "rep.val")])
		kind := []string{"scenarios", "steps"}[tp.Draw(2, "rep.boardkind")]
		fmt.Fprintf(&g.sb, "%s: {\n  one: {\n    rq\n  }\n  two: {\n    rr\n    rbase2.style.opacity: 0.5\n  }\n  three: {\n    rs: |md\n      %s\n    |\n  }\n}\n", kind, md())
	}
	if tp.Chance(1, 2, "rep.glob") {
		fmt.Fprintf(&g.sb, "ru*.%s\n", vals[tp.Draw(len(vals), "rep.val")])
		if tp.Chance(1, 2, "rep.globmd") {
			fmt.Fprintf(&g.sb, "ru*.tooltip: |md %s |\n", md())
		}
	}
}

// filters emits objects with and without explicit labels, shapes and styles, and globs whose
// bodies carry filters (&label, !&label, &shape, &opacity, &leaf, &connected, &level, ...):
// a filter on a keyword the object does not set is matched against an implicit default.
func (g *gen) filters() {
	tp := g.tp
	n := 4 + tp.Draw(8, "flt.objects")
	for i := 0; i < n; i++ {
		switch tp.Draw(5, "flt.kind") {
		case 0:
			fmt.Fprintf(&g.sb, "fo%d\n", i)
		case 1:
			fmt.Fprintf(&g.sb, "fo%d: fo%d\n", i, (i+1)%n)
		case 2:
			fmt.Fprintf(&g.sb, "fo%d: lab%d {\n  shape: %s\n}\n", i, tp.Draw(3, "flt.lab"), shapes[tp.Draw(4, "flt.shape")])
		case 3:
			fmt.Fprintf(&g.sb, "fo%d.style.opacity: 0.%d\n", i, 4+tp.Draw(3, "flt.op"))
		case 4:
			fmt.Fprintf(&g.sb, "fo%d: {\n  inner%d\n}\n", i, i)
		}
	}
	for i, m := 0, 1+tp.Draw(3, "flt.edges"); i < m; i++ {
		fmt.Fprintf(&g.sb, "fo%d -> fo%d\n", tp.Draw(n, "flt.src"), tp.Draw(n, "flt.dst"))
	}
	conds := []string{"&label: fo%d", "!&label: fo%d", "&label: lab%d", "&shape: rectangle", "!&shape: circle", "&shape: " + shapes[1], "&style.opacity: 1", "&leaf: true", "&connected: true", "&level: 0", "!&label: lab%d", "&label: *o%d"}
	bodies := []string{"style.stroke: blue", "style.stroke-dash: 3", "style.fill: honeydew", "style.bold: true", "shape: hexagon", "style.font-color: red", "style.multiple: true"}
	for i, m := 0, 2+tp.Draw(4, "flt.globs"); i < m; i++ {
		c := conds[tp.Draw(len(conds), "flt.cond")]
		if strings.Contains(c, "%d") {
			c = fmt.Sprintf(c, tp.Draw(n, "flt.arg"))
		}
		pat := []string{"*", "fo*", "**"}[tp.Draw(3, "flt.pat")]
		fmt.Fprintf(&g.sb, "%s: {\n  %s\n  %s\n}\n", pat, c, bodies[tp.Draw(len(bodies), "flt.body")])
	}
}

// RenderFeatures emits what only the renderer looks at: a legend, tooltips drawn next to
// their shapes, links and tooltips (appendix), latex labels that define and use macros (a
// TeX engine keeps definitions), code in several languages, markdown, fill patterns,
// gradients, sketch-relevant shapes, animated and dashed connections, 3d/multiple.
func (g *gen) RenderFeatures() {
	tp := g.tp
	if tp.Chance(1, 3, "rf.legend") {
		g.sb.WriteString("vars: {\n  d2-legend: Legend {\n")
		for i, n := 0, 2+tp.Draw(4, "rf.legend.n"); i < n; i++ {
			fmt.Fprintf(&g.sb, "    lg%d: %s entry %d {\n      shape: %s\n", i, words[tp.Draw(len(words), "gen.word")], i, shapes[tp.Draw(len(shapes), "gen.shape")])
			if tp.Chance(1, 2, "rf.legend.style") {
				fmt.Fprintf(&g.sb, "      style.fill: %s\n", colors[tp.Draw(len(colors), "gen.color")])
			}
			g.sb.WriteString("    }\n")
		}
		g.sb.WriteString("    lg0 -> lg1: relation with a longer label {\n      style.stroke-dash: 2\n    }\n  }\n}\n")
	}
	if tp.Chance(1, 3, "rf.tooltips") {
		pos := []string{"top-left", "top-center", "top-right", "center-left", "center-right", "bottom-left", "bottom-center", "bottom-right"}
		for i, n := 0, 1+tp.Draw(4, "rf.tt.n"); i < n; i++ {
			fmt.Fprintf(&g.sb, "tt%d: Shape %d {\n  tooltip: %s tip number %d {\n    near: %s\n  }\n}\n", i, i, words[tp.Draw(len(words), "gen.word")], i, pos[tp.Draw(len(pos), "rf.tt.pos")])
		}
	}
	if tp.Chance(1, 3, "rf.appendix") {
		g.sb.WriteString("ap1: linked {\n  link: https://example.com/one\n  tooltip: first tooltip of the appendix\n}\nap2: {\n  tooltip: second tooltip\n}\nap3.link: https://example.com/three\n")
	}
	if tp.Chance(1, 3, "rf.latex") {
		macros := []string{"vop", "wop", "xop"}
		for i, n := 0, 2+tp.Draw(3, "rf.latex.n"); i < n; i++ {
			m := macros[tp.Draw(len(macros), "rf.latex.macro")]
			switch tp.Draw(4, "rf.latex.kind") {
			case 0:
				fmt.Fprintf(&g.sb, "lx%d: |latex\n  \\DeclareMathOperator{\\%s}{%s%d} \\%s_{x} f(x)\n|\n", i, m, m, i, m)
			case 1:
				fmt.Fprintf(&g.sb, "lx%d: |latex\n  \\%s_{y} g(y) + %d\n|\n", i, m, i)
			case 2:
				fmt.Fprintf(&g.sb, "lx%d: |latex\n  \\newcommand{\\%s}{\\alpha^{%d}} \\%s + \\frac{1}{%d}\n|\n", i, m, i, m, i+2)
			case 3:
				fmt.Fprintf(&g.sb, "lx%d: |latex\n  e = mc^%d \\label{eq%d}\n|\n", i, i+2, tp.Draw(2, "rf.latex.label"))
			}
		}
		g.sb.WriteString("lx0 -> lx1: |latex\n  \\sum_{i=0}^n i\n|\n")
	}
	if tp.Chance(1, 4, "rf.code") {
		g.sb.WriteString("cd1: |go\n  func main() { fmt.Println(\"x\") }\n|\ncd2: |python\n  def f(x):\n      return x * 2\n|\ncd3: |sql\n  SELECT a, b FROM t WHERE a > 1;\n|\ncd4: |md\n  # Title\n  some *text* with `code`\n\n  - item one\n  - item two\n|\n")
	}
	if tp.Chance(1, 3, "rf.patterns") {
		pats := []string{"dots", "lines", "grain", "paper"}
		for i, n := 0, 1+tp.Draw(3, "rf.pat.n"); i < n; i++ {
			fmt.Fprintf(&g.sb, "pt%d: {\n  style.fill-pattern: %s\n  style.fill: %s\n}\n", i, pats[tp.Draw(len(pats), "rf.pat")], []string{"\"linear-gradient(#f69d3c, #3f87a6)\"", "\"radial-gradient(red, yellow, green)\"", "honeydew"}[tp.Draw(3, "rf.grad")])
		}
		g.sb.WriteString("pt0 -> pt0: self {\n  style.animated: true\n}\n")
	}
	if tp.Chance(1, 2, "rf.arrowheads") {
		// every arrowhead shape once, filled at one end and unfilled at the other
		heads := []string{"triangle", "arrow", "diamond", "circle", "box", "cross", "cf-one", "cf-one-required", "cf-many", "cf-many-required"}
		flip := tp.Chance(1, 2, "rf.arrowheads.flip")
		for i, h := range heads {
			fmt.Fprintf(&g.sb, "ah%d <-> ah%d: {\n  source-arrowhead: {shape: %s; style.filled: %v}\n  target-arrowhead: %d {shape: %s; style.filled: %v}\n}\n", i, i+1, h, flip, i, h, !flip)
		}
	}
	if tp.Chance(1, 6, "rf.biggrid") {
		// a dynamic grid (rows or columns only) with many uneven cells: the layout searches
		// for the best division of the cells
		n := 40 + tp.Draw(70, "rf.biggrid.n")
		key := []string{"grid-rows", "grid-columns"}[tp.Draw(2, "rf.biggrid.key")]
		fmt.Fprintf(&g.sb, "bg: {\n  %s: %d\n", key, 3+tp.Draw(12, "rf.biggrid.k"))
		seed := uint64(tp.Draw(1<<30, "rf.biggrid.seed"))
		for i := 0; i < n; i++ {
			r := tape.SplitMix(&seed)
			fmt.Fprintf(&g.sb, "  c%d: %s", i, strings.Repeat("w", 1+int(r%23)))
			if r>>8%5 == 0 {
				fmt.Fprintf(&g.sb, " {\n    width: %d\n    height: %d\n  }", 40+int(r>>16%300), 30+int(r>>32%200))
			}
			g.sb.WriteString("\n")
		}
		g.sb.WriteString("}\n")
	}
	if tp.Chance(1, 4, "rf.icons") {
		g.sb.WriteString("ic1: {\n  icon: https://icons.terrastruct.com/essentials/004-picture.svg\n}\nic2: img {\n  shape: image\n  icon: https://icons.terrastruct.com/essentials/005-programmer.svg\n}\n")
	}
}

// Script returns a generated D2 script and the files it imports (nil when none).
func Script(tp *tape.Tape) (string, map[string]string) { return script(tp, false) }

// RenderScript is Script biased towards what the renderer looks at and away from programs
// that end in a compile error.
func RenderScript(tp *tape.Tape) (string, map[string]string) { return script(tp, true) }

// RenderScriptSelfLoops is RenderScript with connections from a shape to itself always present.
func RenderScriptSelfLoops(tp *tape.Tape) (string, map[string]string) {
	forceSelfLoops = true
	defer func() { forceSelfLoops = false }()
	return script(tp, true)
}

var forceSelfLoops bool // (generation is single-threaded: one tape, one goroutine)

func script(tp *tape.Tape, render bool) (string, map[string]string) {
	g := &gen{tp: tp}
	if render && tp.Chance(3, 4, "gen.renderfeatures") {
		g.RenderFeatures()
	}
	var files map[string]string
	if tp.Chance(1, 3, "gen.vars") {
		g.sb.WriteString("vars: {\n  a: alpha-value\n  b: beta-value\n  c: {\n    d: nested\n  }\n  d2-config: {\n    pad: 20\n  }\n}\n")
	}
	if tp.Chance(3, 4, "gen.classes") {
		g.sb.WriteString("classes: {\n  c1: {\n    style.fill: honeydew\n    style.stroke: red\n    style.stroke-width: 3\n  }\n  c2: {\n    style.fill: lightblue\n    style.bold: true\n    label: classy\n  }\n  c3: {\n    shape: hexagon\n    style.fill: orange\n    style.stroke: green\n    style.stroke-width: 1\n  }\n}\n")
	}
	if tp.Chance(1, 4, "gen.direction") {
		g.sb.WriteString("direction: " + []string{"right", "down", "left", "up"}[tp.Draw(4, "gen.dir")] + "\n")
	}
	var ids []string
	g.container("", 0, &ids, "")
	if tp.Chance(1, 4, "gen.glob") {
		g.sb.WriteString("*.style.font-color: red\n**.style.stroke-dash: 2\n")
	}
	if render && (tp.Chance(1, 3, "gen.selfloops") || forceSelfLoops) {
		// connections from a shape to itself, with short, long and multi-line labels (a
		// layout engine reserves room for them; how much depends on the largest label)
		labels := []string{"", ": again", ": retries until the upstream service finally answers", ": a\\nb\\nc\\nd\\ne\\nf", ": x"}
		for i, n := 0, 1+tp.Draw(3, "gen.selfloops.n"); i < n; i++ {
			fmt.Fprintf(&g.sb, "sl%d -> sl%d%s\n", i, i, labels[tp.Draw(len(labels), "gen.selfloops.label")])
		}
	}
	if tp.Chance(1, 4, "gen.table") {
		g.sb.WriteString("tbl: {\n  shape: sql_table\n  id: int {constraint: primary_key}\n  name: varchar\n  owner: int {constraint: foreign_key}\n  created: timestamp\n}\n")
		if len(ids) > 0 {
			fmt.Fprintf(&g.sb, "tbl.owner -> %s\n", ids[0])
		}
	}
	if tp.Chance(1, 5, "gen.class-shape") {
		g.sb.WriteString("cls: {\n  shape: class\n  +field: int\n  -secret: string\n  \\#prot(a int): bool\n}\n")
	}
	if tp.Chance(1, 5, "gen.grid") {
		g.sb.WriteString("grid: {\n  grid-rows: 2\n  grid-columns: 3\n  g1\n  g2\n  g3\n  g4\n  g5\n  g6: {\n    inner a -> inner b\n  }\n}\n")
	}
	if tp.Chance(1, 5, "gen.sequence") {
		g.sb.WriteString("seq: {\n  shape: sequence_diagram\n  alice -> bob: hello\n  bob -> carol: forward\n  carol -> alice: reply\n  bob.\"note\"\n  span: {\n    alice.t1 -> bob.t1: in span\n  }\n}\n")
	}
	if tp.Chance(1, 6, "gen.near") && len(ids) > 0 {
		g.sb.WriteString("legend-ish: \"near top\" {\n  near: top-center\n}\n")
	}
	if tp.Chance(1, 5, "gen.subst") && strings.Contains(g.sb.String(), "  a: alpha-value") {
		g.sb.WriteString("subst: ${a} and ${c.d}\n")
	}
	if tp.Chance(1, 4, "gen.boards") {
		for _, kind := range []string{"layers", "scenarios", "steps"} {
			if !tp.Chance(2, 3, "gen.board."+kind) {
				continue
			}
			fmt.Fprintf(&g.sb, "%s: {\n", kind)
			for i := 0; i < 3; i++ {
				fmt.Fprintf(&g.sb, "  %s%d: {\n    extra%d: in %s %d\n", kind[:1], i, i, kind, i)
				if len(ids) > 0 {
					fmt.Fprintf(&g.sb, "    extra%d -> %s\n", i, strings.Split(ids[0], ".")[0])
				}
				g.sb.WriteString("  }\n")
			}
			g.sb.WriteString("}\n")
		}
	}
	if tp.Chance(1, 3, "gen.filters") {
		g.filters()
	}
	if !render && tp.Chance(1, 4, "gen.repeated") {
		g.repeated()
	}
	if !render && tp.Chance(1, 4, "gen.errors") {
		g.errorRich()
		if tp.Chance(1, 2, "gen.errors.import") {
			// an unresolved variable at 1:1 of an imported file and at 1:1 of the root
			files = map[string]string{"bad.d2": "${imp_unresolved}: x\nq: ${imp_other}\n"}
			return "${root_unresolved}: y\n" + g.sb.String() + "...@bad\n", files
		}
	}
	if tp.Chance(1, 5, "gen.import") {
		files = map[string]string{
			"x.d2": "imported1: from x {\n  shape: circle\n}\nimported2\nimported3 -> imported1\n",
			"y.d2": "style: {\n  fill: honeydew\n}\nlabel: from y\n",
		}
		g.sb.WriteString("...@x\nyy: @y\n")
		if !render && tp.Chance(1, 3, "gen.import.odd") {
			// errors of the import machinery: a key the file does not have, a missing file
			g.sb.WriteString("zz: @x.no.such.key\nzy: @y.imported1\nzx: @nowhere\n")
		}
	}
	return g.sb.String(), files
}
