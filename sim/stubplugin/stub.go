// Package stubplugin is a trivial bundled layout engine ("simstub") used by the watch
// simulation by default so that a compile costs well under a millisecond; real dagre is a
// swarm option. It places objects in a row and routes edges as straight segments.
package stubplugin

import (
	"context"
	"sync"

	"oss.terrastruct.com/d2/d2graph"
	"oss.terrastruct.com/d2/d2plugin"
	"oss.terrastruct.com/d2/lib/geo"
	"oss.terrastruct.com/d2/lib/label"
	"oss.terrastruct.com/util-go/go2"
)

type Plugin struct {
	// Before, when set, runs at the start of every Layout call (a scheduling point).
	Before func()
}

var (
	once sync.Once
	P    = &Plugin{}
)

// Register adds the plugin to d2's bundled plugin list once per process.
func Register() {
	once.Do(func() { d2plugin.VerifRegisterPlugin(P) })
}

func (p *Plugin) Info(context.Context) (*d2plugin.PluginInfo, error) {
	return &d2plugin.PluginInfo{Name: "simstub", Type: "bundled", ShortHelp: "verif stub layout", LongHelp: "verif stub layout",
		Features: []d2plugin.PluginFeature{d2plugin.NEAR_OBJECT, d2plugin.CONTAINER_DIMENSIONS, d2plugin.TOP_LEFT, d2plugin.DESCENDANT_EDGES}}, nil
}

func (p *Plugin) Flags(context.Context) ([]d2plugin.PluginSpecificFlag, error) { return nil, nil }
func (p *Plugin) HydrateOpts([]byte) error                                     { return nil }
func (p *Plugin) PostProcess(_ context.Context, in []byte) ([]byte, error)     { return in, nil }

func (p *Plugin) Layout(ctx context.Context, g *d2graph.Graph) error {
	if p.Before != nil {
		p.Before()
	}
	x := 0.
	for _, obj := range g.Objects {
		if obj.Width == 0 {
			obj.Width = 60
		}
		if obj.Height == 0 {
			obj.Height = 40
		}
		obj.TopLeft = geo.NewPoint(x, float64(20*obj.Level()))
		x += obj.Width + 40
		if obj.HasLabel() && obj.LabelPosition == nil {
			obj.LabelPosition = go2.Pointer(label.InsideMiddleCenter.String())
		}
		if obj.Icon != nil && obj.IconPosition == nil {
			obj.IconPosition = go2.Pointer(label.InsideMiddleCenter.String())
		}
	}
	for _, e := range g.Edges {
		e.Route = []*geo.Point{e.Src.Center(), e.Dst.Center()}
		if e.Label.Value != "" && e.LabelPosition == nil {
			e.LabelPosition = go2.Pointer(label.InsideMiddleCenter.String())
		}
	}
	return nil
}
