// vdriver builds an engine from /repo's working tree, fans simulated runs out over worker
// processes, minimises and records any violation as a replay file, and writes the evidence.
//
// Exit codes: 0 property held on everything explored; 1 violation (with the line
// "VIOLATION property=<id> replay=<path>"); 2 build / harness / watchdog / replay trouble.
package main

import (
	"encoding/json"
	"flag"
	"fmt"
	"os"
	"os/exec"
	"path/filepath"
	"regexp"
	"runtime"
	"sort"
	"strconv"
	"strings"
	"sync"
	"sync/atomic"
	"time"

	"verifsim/harness"
)

const (
	goBin  = "go1.26.8"
	goRoot = "/opt/veriftools/go1.26.8"
)

// verifDir is the directory run_check.sh lives in (it cds there before starting the
// driver): /verif normally, a snapshot of it under `vp run`.
var verifDir = func() string {
	if d, err := os.Getwd(); err == nil {
		if _, err := os.Stat(filepath.Join(d, "sim", "go.mod")); err == nil {
			return d
		}
	}
	return "/verif"
}()

type propSpec struct {
	Engine      string
	Level       string
	QuickS      int // wall-clock budget of the exploration phase, seconds
	ThoroughS   int
	MaxRunsQ    int // per worker; 0 = unlimited within the budget
	MaxRunsT    int
	DetSamples  int // runs re-executed in fresh processes at other GOMAXPROCS (quick)
	DetSamplesT int
	Rule        string
	Assumptions []string
	RealStub    map[string]string
	Extra       map[string]string
	Exhaustive  bool
	NeedsD2Bin  bool // the real d2 binary (no tags, no overlay) for cross-validation
	WatchdogS   int  // wall-clock limit of a single run (default 90 s)
}

var props = map[string]propSpec{}

func buildDir() string { return filepath.Join(verifDir, ".build") }

func fatal2(format string, a ...any) {
	fmt.Fprintf(os.Stderr, "vdriver: "+format+"\n", a...)
	fmt.Printf("HARNESS-ERROR %s\n", fmt.Sprintf(format, a...))
	os.Exit(2)
}

func goEnv() []string {
	env := os.Environ()
	env = append(env, "GOFLAGS=-mod=mod", "GOPROXY=off", "GOSUMDB=off", "GOTOOLCHAIN=local", "CGO_ENABLED=0")
	return env
}

func ensureOverlay() string {
	dir := filepath.Join(buildDir(), "overlay")
	ov := filepath.Join(dir, "overlay.json")
	gen := filepath.Join(verifDir, "rtpatch", "gen_overlay.py")
	need := false
	si, err := os.Stat(ov)
	if err != nil {
		need = true
	} else if gi, err := os.Stat(gen); err == nil && gi.ModTime().After(si.ModTime()) {
		need = true
	}
	if need {
		cmd := exec.Command("python3", gen, goRoot, dir)
		out, err := cmd.CombinedOutput()
		if err != nil {
			fatal2("overlay generation failed: %v\n%s", err, out)
		}
	}
	return ov
}

func repoDir() string {
	if d := os.Getenv("VSIM_REPO"); d != "" {
		return d
	}
	return "/repo"
}

func buildEngine(engine string) string {
	ov := ensureOverlay()
	simDir := filepath.Join(verifDir, "sim")
	// go.sum of the harness module = the repository's (all dependencies are the repository's).
	if b, err := os.ReadFile(filepath.Join(repoDir(), "go.sum")); err == nil {
		os.WriteFile(filepath.Join(simDir, "go.sum"), b, 0644)
	}
	bin := filepath.Join(buildDir(), "bin", engine+".test")
	os.MkdirAll(filepath.Dir(bin), 0755)
	build := func(ov string) ([]byte, error) {
		args := []string{"test", "-c", "-tags", "verif", "-overlay", ov, "-o", bin, "./engines/" + engine}
		if repoDir() != "/repo" {
			args = append([]string{"test", "-modfile", altModfile(simDir)}, args[1:]...)
		}
		cmd := exec.Command(goBin, args...)
		cmd.Dir = simDir
		cmd.Env = goEnv()
		return cmd.CombinedOutput()
	}
	start := time.Now()
	note := ""
	if engine == "pipesim" {
		// Statement-level scheduling points: the pipeline packages of the working tree are
		// rewritten into an overlay (cmd/yieldgen). If that build fails for whatever the
		// tree contains, the engine is built without them and interleaves at stage
		// boundaries only.
		if sov, n, err := stmtOverlay(ov); err != nil {
			fmt.Printf("WARNING statement-level scheduling points not available: %v\n", err)
		} else if out, err := build(sov); err != nil {
			fmt.Printf("WARNING build with statement-level scheduling points failed (%v); building without them\n%s\n", err, firstLines(string(out), 12))
		} else {
			fmt.Printf("built %s in %.1fs (from %s working tree, -tags verif, runtime/syscall overlay, %s)\n", engine, time.Since(start).Seconds(), repoDir(), n)
			return bin
		}
		note = ", WITHOUT statement-level scheduling points"
	}
	out, err := build(ov)
	if err != nil {
		fatal2("build of engine %s failed: %v\n%s", engine, err, out)
	}
	fmt.Printf("built %s in %.1fs (from %s working tree, -tags verif, runtime/syscall overlay%s)\n", engine, time.Since(start).Seconds(), repoDir(), note)
	return bin
}

func firstLines(s string, n int) string {
	l := strings.Split(s, "\n")
	if len(l) > n {
		l = l[:n]
	}
	return strings.Join(l, "\n")
}

// stmtOverlay runs cmd/yieldgen on the repository's working tree and merges its source
// overlay with the standard-library overlay.
func stmtOverlay(stdOverlay string) (string, string, error) {
	simDir := filepath.Join(verifDir, "sim")
	gen := filepath.Join(buildDir(), "bin", "yieldgen")
	cmd := exec.Command(goBin, "build", "-o", gen, "./cmd/yieldgen")
	cmd.Dir = simDir
	cmd.Env = goEnv()
	if out, err := cmd.CombinedOutput(); err != nil {
		return "", "", fmt.Errorf("yieldgen build: %v: %s", err, out)
	}
	dir := filepath.Join(buildDir(), "yield")
	os.RemoveAll(dir)
	out, err := exec.Command(gen, "-repo", repoDir(), "-out", dir).CombinedOutput()
	if err != nil {
		return "", "", fmt.Errorf("yieldgen: %v: %s", err, out)
	}
	type ovT struct{ Replace map[string]string }
	var a, b ovT
	for f, v := range map[string]*ovT{stdOverlay: &a, filepath.Join(dir, "src-overlay.json"): &b} {
		raw, err := os.ReadFile(f)
		if err != nil {
			return "", "", err
		}
		if err := json.Unmarshal(raw, v); err != nil {
			return "", "", err
		}
	}
	for k, v := range b.Replace {
		a.Replace[k] = v
	}
	raw, _ := json.Marshal(a)
	merged := filepath.Join(dir, "merged.json")
	if err := os.WriteFile(merged, raw, 0644); err != nil {
		return "", "", err
	}
	lines := strings.Split(strings.TrimSpace(string(out)), "\n")
	return merged, strings.TrimPrefix(lines[len(lines)-1], "yieldgen: "), nil
}

// buildD2 builds the real d2 command from the repository's working tree (no verif tag, no
// overlay) for cross-validation under strace.
func buildD2() string {
	bin := filepath.Join(buildDir(), "bin", "d2real")
	cmd := exec.Command(goBin, "build", "-o", bin, ".")
	cmd.Dir = repoDir()
	cmd.Env = goEnv()
	if out, err := cmd.CombinedOutput(); err != nil {
		fatal2("build of the real d2 binary failed: %v\n%s", err, out)
	}
	return bin
}

// altModfile writes a go.mod that points the d2 replace at $VSIM_REPO (used for
// sensitivity runs against scratch worktrees).
func altModfile(simDir string) string {
	b, err := os.ReadFile(filepath.Join(simDir, "go.mod"))
	if err != nil {
		fatal2("%v", err)
	}
	s := strings.Replace(string(b), "oss.terrastruct.com/d2 => /repo", "oss.terrastruct.com/d2 => "+repoDir(), 1)
	s = strings.Replace(s, "=> ./third_party", "=> "+simDir+"/third_party", -1)
	p := filepath.Join(buildDir(), "alt", "go.mod")
	os.MkdirAll(filepath.Dir(p), 0755)
	os.WriteFile(p, []byte(s), 0644)
	if sb, err := os.ReadFile(filepath.Join(repoDir(), "go.sum")); err == nil {
		os.WriteFile(filepath.Join(buildDir(), "alt", "go.sum"), sb, 0644)
	}
	return p
}

// effectiveCores measures how many goroutines' worth of CPU the machine delivers right now.
func effectiveCores() float64 {
	spin := func(n int) float64 {
		var total int64
		var wg sync.WaitGroup
		deadline := time.Now().Add(150 * time.Millisecond)
		for i := 0; i < n; i++ {
			wg.Add(1)
			go func() {
				defer wg.Done()
				var cnt, x int64
				for time.Now().Before(deadline) {
					for j := int64(0); j < 20000; j++ {
						x += j ^ cnt
					}
					cnt++
				}
				if x == 42 {
					cnt++
				}
				atomic.AddInt64(&total, cnt)
			}()
		}
		wg.Wait()
		return float64(total)
	}
	one := spin(1)
	all := spin(runtime.NumCPU())
	if one <= 0 {
		return 4
	}
	return all / one
}

// crashScope: for checks that claim a slice of their property, where the innermost frame of
// d2 must be for a crash of the process to count (C01: the parser; C07: the import
// machinery). Crashes of the compiler proper on sampled programs are the input-space half of
// C07, which nothing here decides.
var crashScope = map[string][]string{"C01": {"/d2parser/", "/d2ast/"}, "C07": {"/d2ir/import.go"}}

// crashOracle names, per property, the "never crashes" oracle.
var crashOracle = map[string]string{"C01": "O01.1", "C08": "O08.1", "C25": "O25.1", "C44": "O44.3", "C45": "O45.4", "C46": "O46.3", "C48": "O48"}

var runMarker = regexp.MustCompile(`VSIM-RUN idx=(\d+) seed=(\d+)`)

// classifyCrash looks at the output of a worker that died. If the Go runtime reports a
// panic or fatal error and the first frame of the crashing goroutine that is neither
// runtime nor standard library belongs to d2, the system under test crashed.
func classifyCrash(log, prop string) *harness.Failure {
	ms := runMarker.FindAllStringSubmatch(log, -1)
	if len(ms) == 0 {
		return nil
	}
	last := ms[len(ms)-1]
	if wd := strings.Index(log, "VSIM-WATCHDOG "); wd >= 0 {
		// A run hung. If goroutines of d2 wait for each other's mutexes, the system under
		// test deadlocked; otherwise it is the harness's problem.
		dump := log[wd:]
		var stuck []string
		for _, g := range strings.Split(dump, "\n\n") {
			head := g
			if i := strings.IndexByte(g, '\n'); i >= 0 {
				head = g[:i]
			}
			if (strings.Contains(head, "sync.Mutex.Lock") || strings.Contains(head, "sync.RWMutex") || strings.Contains(head, "semacquire") || strings.Contains(head, "sync.WaitGroup.Wait")) &&
				strings.Contains(g, "oss.terrastruct.com/d2/") && !strings.Contains(g, "verifsim/") {
				stuck = append(stuck, g)
			}
		}
		if len(stuck) < 1 {
			return nil
		}
		idx, _ := strconv.Atoi(last[1])
		seed, _ := strconv.ParseUint(last[2], 10, 64)
		msg := strings.Join(stuck, "\n\n")
		if len(msg) > 4000 {
			msg = msg[:4000]
		}
		return &harness.Failure{RunIndex: idx, Seed: seed, Result: harness.Result{Property: prop, Oracle: crashOracle[prop],
			Msg: "the system under test deadlocked (goroutines of d2 blocked on locks for minutes of wall-clock time):\n" + msg}}
	}
	at := strings.Index(log, "\npanic: ")
	if at < 0 {
		at = strings.Index(log, "\nfatal error: ")
	}
	if at < 0 {
		return nil
	}
	crash := log[at+1:]
	// first goroutine block after the message
	block := crash
	if i := strings.Index(crash, "\n\ngoroutine "); i >= 0 {
		rest := crash[i+2:]
		if j := strings.Index(rest, "\n\n"); j >= 0 {
			rest = rest[:j]
		}
		block = crash[:i] + "\n" + rest
	}
	owner := ""
	for _, l := range strings.Split(block, "\n") {
		l = strings.TrimSpace(l)
		switch {
		case strings.HasPrefix(l, "oss.terrastruct.com/d2/"):
			owner = "d2"
		case strings.HasPrefix(l, "verifsim/"), strings.HasPrefix(l, "github.com/fsnotify/fsnotify"):
			owner = "harness"
		}
		if owner != "" {
			break
		}
	}
	if owner != "d2" {
		return nil
	}
	idx, _ := strconv.Atoi(last[1])
	seed, _ := strconv.ParseUint(last[2], 10, 64)
	full := block
	if len(block) > 3000 {
		// keep the head and the innermost frames of d2 (a stack overflow has hundreds of
		// library frames above them)
		block = block[:1800]
		if i := strings.Index(full, "\noss.terrastruct.com/d2/"); i >= 1800 {
			rest := full[i:]
			if len(rest) > 1200 {
				rest = rest[:1200]
			}
			block += "\n...\n" + rest
		}
	}
	if scope := crashScope[prop]; len(scope) > 0 {
		// A check that claims a slice of its property counts a crash only when the
		// innermost frame of d2 is in the code of that slice (the file:line follows the
		// function line).
		in := false
		lines := strings.Split(full, "\n")
		for i, l := range lines {
			if strings.HasPrefix(strings.TrimSpace(l), "oss.terrastruct.com/d2/") && i+1 < len(lines) {
				for _, sc := range scope {
					if strings.Contains(lines[i+1], sc) {
						in = true
					}
				}
				break
			}
		}
		if !in {
			return &harness.Failure{RunIndex: idx, Seed: seed, Result: harness.Result{Property: "", Oracle: "outside-slice",
				Msg: "a crash of d2 outside the code this check's slice covers:\n" + block}}
		}
	}
	return &harness.Failure{RunIndex: idx, Seed: seed, Result: harness.Result{Property: prop, Oracle: crashOracle[prop],
		Msg: "the system under test crashed the process:\n" + block}}
}

type workerJob struct {
	prop string
	env  []string
	out  string
	log  string
	wall time.Duration

	restarts int
}

func runWorker(bin string, j workerJob) (*harness.Summary, error) {
	os.Remove(j.out)
	cmd := exec.Command(bin, "-test.run", "^TestEngine$", "-test.timeout", "0", "-test.count", "1")
	cmd.Env = append(os.Environ(), j.env...)
	cmd.Env = append(cmd.Env, "VSIM_OUT="+j.out)
	lf, _ := os.Create(j.log)
	cmd.Stdout, cmd.Stderr = lf, lf
	if err := cmd.Start(); err != nil {
		return nil, err
	}
	done := make(chan error, 1)
	go func() { done <- cmd.Wait() }()
	select {
	case <-done:
	case <-time.After(j.wall):
		cmd.Process.Signal(os.Interrupt) // SIGQUIT would dump stacks; keep it simple
		time.Sleep(200 * time.Millisecond)
		cmd.Process.Kill()
		<-done
		lf.Close()
		return nil, fmt.Errorf("watchdog: worker exceeded %v (log %s)", j.wall, j.log)
	}
	lf.Close()
	b, rerr := os.ReadFile(j.out)
	if rerr != nil {
		logb, _ := os.ReadFile(j.log)
		if f := classifyCrash(string(logb), j.prop); f != nil {
			if f.Result.Oracle == "outside-slice" {
				// Not this check's business, but the worker is gone: say so, and carry on
				// behind the run that killed it.
				fmt.Printf("NOTE worker died in run %d: %s\n", f.RunIndex, firstLines(f.Result.Msg, 14))
				if j.restarts < 8 {
					j2 := j
					j2.restarts++
					j2.env = append(append([]string{}, j.env...), "VSIM_START_AFTER="+strconv.Itoa(f.RunIndex))
					s2, err := runWorker(bin, j2)
					if s2 != nil {
						if s2.Probes == nil {
							s2.Probes = map[string]int{}
						}
						s2.Probes["worker_restarted_after_a_crash_outside_the_slice"]++
					}
					return s2, err
				}
				return &harness.Summary{Runs: 1, Evals: 1, Crashed: true}, nil
			}
			// The system under test crashed the process: that is a result, not a
			// harness failure.
			return &harness.Summary{Runs: 1, Evals: 1, Failures: []harness.Failure{*f}, Crashed: true}, nil
		}
		tail := logb
		if len(tail) > 6000 {
			tail = tail[len(tail)-6000:]
		}
		return nil, fmt.Errorf("worker wrote no summary (%v); log tail:\n%s", rerr, tail)
	}
	var s harness.Summary
	if err := json.Unmarshal(b, &s); err != nil {
		return nil, fmt.Errorf("bad summary: %v", err)
	}
	return &s, nil
}

type knownFile struct {
	Findings []struct {
		Property string `json:"property"`
		Oracle   string `json:"oracle"`
		Match    string `json:"match"`
		What     string `json:"what"`
	} `json:"findings"`
	Fixed []string `json:"fixed"`
}

func loadKnown() knownFile {
	var k knownFile
	b, err := os.ReadFile(filepath.Join(verifDir, "known_findings.json"))
	if err == nil {
		json.Unmarshal(b, &k)
	}
	return k
}

func main() {
	prop := flag.String("prop", "", "property id")
	tier := flag.String("tier", "quick", "quick|thorough")
	replay := flag.String("replay", "", "replay file")
	workers := flag.Int("workers", 0, "worker processes (default: NumCPU)")
	budget := flag.Int("budget", 0, "override exploration budget, seconds")
	noMin := flag.Bool("nomin", false, "do not minimise")
	noEvidence := flag.Bool("noevidence", false, "do not write the evidence file (sensitivity runs)")
	buildOnly := flag.Bool("buildonly", false, "build the property's engine (warming the build cache) and exit")
	flag.Parse()
	spec, ok := props[*prop]
	if !ok {
		fatal2("unknown property %q", *prop)
	}
	if *workers <= 0 {
		// The sandbox VM advertises 16 CPUs; at times it delivers the throughput of 16, at
		// times of 2-4 (then more than 8 worker processes make a batch slower). The worker
		// count follows what a short spin test measures now; it changes how many runs fit
		// into the budget, never what a run does (run i has seed mix(master, i+1)).
		eff := effectiveCores()
		*workers = int(eff*0.75 + 0.5)
		if *workers < 4 {
			*workers = 4
		}
		if *workers > 12 {
			*workers = 12
		}
		if *workers > runtime.NumCPU() {
			*workers = runtime.NumCPU()
		}
		fmt.Printf("measured parallel throughput: %.1f cores of %d advertised -> %d worker processes\n", eff, runtime.NumCPU(), *workers)
	}
	master := uint64(20260921)
	if v := os.Getenv("VERIF_SEED"); v != "" {
		if u, err := strconv.ParseUint(v, 10, 64); err == nil {
			master = u
		} else if i, err := strconv.ParseInt(v, 10, 64); err == nil {
			master = uint64(i)
		}
	}
	fmt.Printf("VERIF_SEED=%d property=%s tier=%s engine=%s\n", master, *prop, *tier, spec.Engine)
	start := time.Now()
	bin := buildEngine(spec.Engine)
	if *buildOnly {
		return
	}
	runDir := filepath.Join(buildDir(), "run", fmt.Sprintf("%s-%d", *prop, os.Getpid()))
	os.MkdirAll(runDir, 0755)
	defer os.RemoveAll(runDir)

	if spec.NeedsD2Bin {
		if spec.Extra == nil {
			spec.Extra = map[string]string{}
		}
		spec.Extra["D2BIN"] = buildD2()
	}
	baseEnv := []string{"VSIM_PROP=" + *prop, "VSIM_TIER=" + *tier, "VSIM_MASTER=" + strconv.FormatUint(master, 10), "VSIM_REPO=" + repoDir()}
	for k, v := range spec.Extra {
		baseEnv = append(baseEnv, "VSIM_X_"+k+"="+v)
	}
	wd := spec.WatchdogS
	if wd == 0 {
		wd = 90
	}
	baseEnv = append(baseEnv, "VSIM_RUN_WATCHDOG_S="+strconv.Itoa(wd))

	if *replay != "" {
		os.Exit(doReplay(bin, runDir, baseEnv, *prop, *replay))
	}

	budgetS, maxRuns, detN := spec.QuickS, spec.MaxRunsQ, spec.DetSamples
	if *tier == "thorough" {
		budgetS, maxRuns, detN = spec.ThoroughS, spec.MaxRunsT, spec.DetSamplesT
	}
	if *budget > 0 {
		budgetS = *budget
	}
	if maxRuns == 0 {
		maxRuns = 1 << 30
	}

	// ---------------- exploration ----------------
	sums := make([]*harness.Summary, *workers)
	errs := make([]error, *workers)
	var wg sync.WaitGroup
	for w := 0; w < *workers; w++ {
		wg.Add(1)
		go func(w int) {
			defer wg.Done()
			env := append([]string{}, baseEnv...)
			env = append(env, "VSIM_WORKER="+strconv.Itoa(w), "VSIM_WORKERS="+strconv.Itoa(*workers),
				"VSIM_BUDGET_MS="+strconv.Itoa(budgetS*1000), "VSIM_MAXRUNS="+strconv.Itoa(maxRuns),
				"VSIM_DETLOG=1", "VSIM_DETN="+strconv.Itoa(detN), "GOMAXPROCS=2")
			sums[w], errs[w] = runWorker(bin, workerJob{prop: *prop, env: env, out: filepath.Join(runDir, fmt.Sprintf("w%d.json", w)),
				log: filepath.Join(runDir, fmt.Sprintf("w%d.log", w)), wall: time.Duration(budgetS)*time.Second*3 + 5*time.Minute})
		}(w)
	}
	wg.Wait()
	for w, err := range errs {
		if err != nil {
			fatal2("worker %d: %v", w, err)
		}
		if sums[w].HarnessErr != "" {
			fatal2("worker %d: %s", w, sums[w].HarnessErr)
		}
	}

	agg := aggregate(sums)
	fmt.Printf("explored %d runs (%d non-trivial, %d distinct) in %.1fs; simulated %.0fs; steps %d\n", agg.Runs, agg.Nontrivial, len(agg.hashSet), time.Since(start).Seconds(), agg.SimSeconds, agg.Steps)
	fmt.Printf("faults fired: %s\n", fmtMap(agg.Faults))
	fmt.Printf("probes: %s\n", fmtMap(agg.Probes))
	if len(agg.Others) > 0 {
		fmt.Printf("NOTE failures of oracles that belong to other properties (not reported by this check): %s\n", fmtMap(agg.Others))
	}

	// ---------------- determinism spot-check ----------------
	det := map[string]any{"samples": 0}
	if detN > 0 && len(agg.Failures) == 0 {
		n, fresh, err := detCheck(bin, runDir, baseEnv, sums, detN, *workers)
		det["samples"] = n
		det["gomaxprocs"] = []int{1, 4, 16}
		if err != nil {
			// Look again before crying wolf: three more fresh processes. What makes a run
			// unreplayable is fresh executions that disagree with each other: two or more
			// of the six differing from the rest exit 2 (nothing this run reports could be
			// replayed reliably). A single stray execution - the one inside the batch, or
			// one of the six - is recorded and reported as a warning, and the verdict of
			// the oracles on the runs that were executed stands.
			if fresh == nil {
				fatal2("determinism spot check could not be carried out: %v", err)
			}
			fmt.Printf("DETERMINISM-WARNING %v\n", err)
			_, fresh2, err2 := detCheck(bin, runDir, baseEnv, sums, detN, *workers)
			if err2 != nil && fresh2 == nil {
				fatal2("determinism re-check failed: %v", err2)
			}
			disagree := ""
			for idx, ls := range fresh {
				all := append(append([]string{}, ls...), fresh2[idx]...)
				cnt := map[string]int{}
				best := ""
				for _, l := range all {
					cnt[l]++
					if cnt[l] > cnt[best] {
						best = l
					}
				}
				// one stray execution in six is tolerated (and recorded); two are a hole
				if out := len(all) - cnt[best]; out >= 2 {
					disagree = fmt.Sprintf("run %d: %d of %d fresh executions differ from the others: %v", idx, out, len(all), cnt)
				}
			}
			if disagree != "" {
				fatal2("NONDETERMINISM: %s", disagree)
			}
			det["result"] = "a single execution differed from the others (six fresh executions, at most one of them stray; recorded as a warning): " + firstLine(err.Error())
		} else {
			det["result"] = "identical schedule hash, trace hash and verdict in fresh processes"
			fmt.Printf("determinism: %d runs re-executed in fresh processes at GOMAXPROCS 1/4/16: identical\n", n)
		}
	}

	// ---------------- violations ----------------
	known := loadKnown()
	exit := 0
	var reported []harness.Failure
	sort.Slice(agg.Failures, func(i, j int) bool { return agg.Failures[i].RunIndex < agg.Failures[j].RunIndex })
	knownHit := map[string]bool{}
	for _, f := range agg.Failures {
		isKnown := false
		for _, k := range known.Findings {
			if k.Property == *prop && (k.Oracle == "" || k.Oracle == f.Result.Oracle) && k.Match != "" && strings.Contains(f.Result.Msg, k.Match) {
				if !knownHit[k.What] {
					fmt.Printf("KNOWN-FINDING: property=%s %s\n", *prop, k.What)
					knownHit[k.What] = true
				}
				isKnown = true
				break
			}
		}
		if !isKnown {
			reported = append(reported, f)
		}
	}
	var replayPath string
	if len(reported) > 0 {
		f := reported[0]
		rf := harness.ReplayFile{Property: *prop, Oracle: f.Result.Oracle, Msg: f.Result.Msg, Engine: spec.Engine, Tier: *tier, Master: master,
			RunIndex: f.RunIndex, Seed: f.Seed, Tape: f.Tape, Labels: f.Labels, Trace: f.Result.Trace, Extra: spec.Extra,
			SutCommit: gitHead(), GoVersion: goBin, OrigLen: len(f.Tape), FromSeed: f.Tape == nil}
		if rf.FromSeed {
			*noMin = true // no tape to shrink: the run is regenerated from its seed
		}
		fmt.Printf("violation in run %d (seed %d): %s: %s\n", f.RunIndex, f.Seed, f.Result.Oracle, firstLine(f.Result.Msg))
		os.MkdirAll(filepath.Join(verifDir, "replays"), 0755)
		replayPath = filepath.Join(verifDir, "replays", fmt.Sprintf("%s-%d.json", *prop, f.Seed))
		// First make sure it replays at all in a fresh process.
		reproduced := false
		for try := 0; try < 3 && !reproduced; try++ {
			got, err := replayOnce(bin, runDir, baseEnv, rf, "verify0")
			if err != nil {
				fmt.Printf("replay attempt %d failed: %v\n", try+1, err)
				continue
			}
			reproduced = got != nil && got.Oracle == rf.Oracle
			if !reproduced {
				fmt.Printf("REPLAY-DIVERGED attempt %d: run %d failed %s in the batch but replays as %q in a fresh process\n", try+1, f.RunIndex, rf.Oracle, oracleOf(got))
			}
		}
		if !reproduced {
			// The oracle did fail on a real execution of the code: that is a violation
			// whatever the replay does. It is reported with the unminimised tape and the
			// recorded trace, and flagged as not reproducing.
			rf.Msg = "[replay did not reproduce in 3 fresh processes; recorded trace attached] " + rf.Msg
			*noMin = true
		}
		if !*noMin {
			minBudget := 60 * time.Second
			if *tier == "thorough" {
				minBudget = 10 * time.Minute
			}
			rf = minimise(bin, runDir, baseEnv, rf, minBudget)
		}
		writeReplay(replayPath, rf)
		fmt.Printf("replay file: %s (tape %d -> %d entries)\n", replayPath, rf.OrigLen, len(rf.Tape))
		fmt.Printf("%s: %s\n", rf.Oracle, rf.Msg)
		exit = 1
	}

	if !*noEvidence {
		writeEvidence(*prop, *tier, master, spec, agg, det, time.Since(start).Seconds(), len(reported), *workers)
	}
	if exit == 1 {
		fmt.Printf("VIOLATION property=%s replay=%s\n", *prop, replayPath)
	} else {
		fmt.Printf("OK property=%s held on %d simulated runs\n", *prop, agg.Runs)
	}
	os.Exit(exit)
}

func oracleOf(r *harness.Result) string {
	if r == nil {
		return "<no result>"
	}
	return r.Oracle
}

func firstLine(s string) string {
	if i := strings.IndexByte(s, '\n'); i >= 0 {
		s = s[:i]
	}
	if len(s) > 300 {
		s = s[:300]
	}
	return s
}

func gitHead() string {
	out, err := exec.Command("git", "-C", repoDir(), "rev-parse", "HEAD").Output()
	if err != nil {
		return ""
	}
	return strings.TrimSpace(string(out))
}

type aggT struct {
	harness.Summary
	hashSet map[uint64]struct{}
}

func aggregate(sums []*harness.Summary) *aggT {
	a := &aggT{hashSet: map[uint64]struct{}{}}
	a.Faults, a.Probes, a.Others = map[string]int{}, map[string]int{}, map[string]int{}
	for _, s := range sums {
		a.Runs += s.Runs
		a.Evals += s.Evals
		a.Nontrivial += s.Nontrivial
		a.Steps += s.Steps
		a.SimSeconds += s.SimSeconds
		for _, h := range s.Hashes {
			a.hashSet[h] = struct{}{}
		}
		for k, v := range s.Faults {
			a.Faults[k] += v
		}
		for k, v := range s.Probes {
			a.Probes[k] += v
		}
		for k, v := range s.Others {
			a.Others[k] += v
		}
		for _, x := range s.Samples {
			if len(a.Samples) < 4 {
				a.Samples = append(a.Samples, x)
			}
		}
		a.Failures = append(a.Failures, s.Failures...)
	}
	return a
}

func fmtMap(m map[string]int) string {
	ks := make([]string, 0, len(m))
	for k := range m {
		ks = append(ks, k)
	}
	sort.Strings(ks)
	var sb strings.Builder
	for _, k := range ks {
		fmt.Fprintf(&sb, "%s=%d ", k, m[k])
	}
	return sb.String()
}

func writeReplay(path string, rf harness.ReplayFile) {
	b, _ := json.MarshalIndent(rf, "", " ")
	os.WriteFile(path, b, 0644)
}

var replaySeq int
var replayMu sync.Mutex

// replayOnce runs one tape in a fresh process and returns its result.
func replayOnce(bin, runDir string, baseEnv []string, rf harness.ReplayFile, tag string) (*harness.Result, error) {
	replayMu.Lock()
	replaySeq++
	id := replaySeq
	replayMu.Unlock()
	p := filepath.Join(runDir, fmt.Sprintf("replay-%s-%d.json", tag, id))
	writeReplay(p, rf)
	defer os.Remove(p)
	out := filepath.Join(runDir, fmt.Sprintf("replay-%s-%d.out", tag, id))
	defer os.Remove(out)
	env := append([]string{}, baseEnv...)
	env = append(env, "VSIM_REPLAY="+p, "GOMAXPROCS=2")
	s, err := runWorker(bin, workerJob{prop: rf.Property, env: env, out: out, log: out + ".log", wall: 5 * time.Minute})
	os.Remove(out + ".log")
	if err != nil {
		return nil, err
	}
	if s.Crashed && len(s.Failures) > 0 {
		return &s.Failures[0].Result, nil
	}
	if s.HarnessErr != "" {
		return nil, fmt.Errorf("%s", s.HarnessErr)
	}
	return s.Replayed, nil
}

// replayFailure is replayOnce that also returns the tape and labels the replay actually
// drew (only available when an oracle failed).
func replayFailure(bin, runDir string, baseEnv []string, rf harness.ReplayFile, tag string) (*harness.Failure, error) {
	replayMu.Lock()
	replaySeq++
	id := replaySeq
	replayMu.Unlock()
	p := filepath.Join(runDir, fmt.Sprintf("replay-%s-%d.json", tag, id))
	writeReplay(p, rf)
	defer os.Remove(p)
	out := filepath.Join(runDir, fmt.Sprintf("replay-%s-%d.out", tag, id))
	defer os.Remove(out)
	env := append([]string{}, baseEnv...)
	env = append(env, "VSIM_REPLAY="+p, "GOMAXPROCS=2")
	s, err := runWorker(bin, workerJob{prop: rf.Property, env: env, out: out, log: out + ".log", wall: 5 * time.Minute})
	os.Remove(out + ".log")
	if err != nil {
		return nil, err
	}
	if len(s.Failures) > 0 {
		return &s.Failures[0], nil
	}
	return nil, nil
}

func doReplay(bin, runDir string, baseEnv []string, prop, path string) int {
	b, err := os.ReadFile(path)
	if err != nil {
		fatal2("%v", err)
	}
	var rf harness.ReplayFile
	if err := json.Unmarshal(b, &rf); err != nil {
		fatal2("bad replay file: %v", err)
	}
	res, err := replayOnce(bin, runDir, baseEnv, rf, "user")
	if err != nil {
		fatal2("replay failed: %v", err)
	}
	if res == nil {
		fatal2("the replay's process ended without a result (a crash outside the code this check covers?)")
	}
	for _, l := range res.Trace {
		fmt.Println("  " + l)
	}
	if res.Oracle == "" {
		fmt.Printf("replay of %s: no oracle violated on this tree (recorded: %s)\n", path, rf.Oracle)
		return 0
	}
	fmt.Printf("%s: %s\n", res.Oracle, res.Msg)
	if res.Oracle != rf.Oracle {
		fmt.Printf("REPLAY-DIVERGED recorded=%s got=%s\n", rf.Oracle, res.Oracle)
		return 2
	}
	fmt.Printf("VIOLATION property=%s replay=%s\n", rf.Property, path)
	return 1
}

// detCheck re-executes a sample of the batch's runs, one fresh process per GOMAXPROCS
// setting, and compares (schedule hash, trace hash, verdict) lines.
func detCheck(bin, runDir string, baseEnv []string, sums []*harness.Summary, n, workers int) (int, map[int][]string, error) {
	fresh := map[int][]string{}
	want := map[int]string{}
	for _, s := range sums {
		for _, l := range s.Log {
			f := strings.SplitN(l, " ", 2)
			idx, _ := strconv.Atoi(f[0])
			want[idx] = l
		}
	}
	var idxs []int
	for i := range want {
		idxs = append(idxs, i)
	}
	sort.Ints(idxs)
	if len(idxs) > n {
		idxs = idxs[:n]
	}
	if len(idxs) == 0 {
		return 0, fresh, nil
	}
	list := make([]string, len(idxs))
	for i, x := range idxs {
		list[i] = strconv.Itoa(x)
	}
	var mu sync.Mutex
	var firstErr error
	var wg sync.WaitGroup
	for _, gmp := range []int{1, 4, 16} {
		wg.Add(1)
		go func(gmp int) {
			defer wg.Done()
			env := append([]string{}, baseEnv...)
			env = append(env, "VSIM_WORKER=0", "VSIM_WORKERS=1", "VSIM_BUDGET_MS=3600000", "VSIM_DETLOG=1", "VSIM_DETN=1000000000",
				"VSIM_INDICES="+strings.Join(list, ","), "GOMAXPROCS="+strconv.Itoa(gmp))
			s, err := runWorker(bin, workerJob{env: env, out: filepath.Join(runDir, fmt.Sprintf("det%d.json", gmp)), log: filepath.Join(runDir, fmt.Sprintf("det%d.log", gmp)), wall: 30 * time.Minute})
			mu.Lock()
			defer mu.Unlock()
			if err != nil {
				if firstErr == nil {
					firstErr = err
				}
				fresh = nil
				return
			}
			if s.HarnessErr != "" && firstErr == nil {
				firstErr = fmt.Errorf("%s", s.HarnessErr)
				fresh = nil
			}
			for _, l := range s.Log {
				f := strings.SplitN(l, " ", 2)
				idx, _ := strconv.Atoi(f[0])
				if fresh != nil {
					fresh[idx] = append(fresh[idx], l)
				}
				if w, ok := want[idx]; ok && w != l && firstErr == nil {
					firstErr = fmt.Errorf("run %d differs between the batch and a fresh process at GOMAXPROCS=%d:\n batch: %s\n fresh: %s", idx, gmp, w, l)
				}
			}
			if len(s.Log) != len(idxs) && firstErr == nil {
				firstErr = fmt.Errorf("determinism re-run at GOMAXPROCS=%d executed %d of %d runs", gmp, len(s.Log), len(idxs))
			}
		}(gmp)
	}
	wg.Wait()
	return len(idxs), fresh, firstErr
}

// minimise shrinks the tape. Every attempt is one fresh process; the attempts of a round run
// in parallel and the lowest-numbered success wins, so the result does not depend on timing.
// The tape is cut along scheduler decisions (a "sched" draw and the draws that depend on
// it), which keeps what remains meaningful: whole steps are dropped (shortest failing prefix,
// then delta debugging over steps), then single draws are set to 0 (the benign choice),
// then values are lowered. After every success the tape is replaced by what the replay
// actually drew.
func minimise(bin, runDir string, baseEnv []string, rf harness.ReplayFile, budget time.Duration) harness.ReplayFile {
	deadline := time.Now().Add(budget)
	attempts := 0
	trim := func(t []int) []int {
		for len(t) > 0 && t[len(t)-1] == 0 {
			t = t[:len(t)-1]
		}
		return t
	}
	cur := trim(append([]int(nil), rf.Tape...))
	labels := rf.Labels
	var last *harness.Failure
	// try runs the candidates and adopts the first that still fails the same oracle.
	try := func(cands [][]int) bool {
		if len(cands) == 0 || time.Now().After(deadline) {
			return false
		}
		results := make([]*harness.Failure, len(cands))
		var wg sync.WaitGroup
		sem := make(chan struct{}, 12)
		for i := range cands {
			wg.Add(1)
			sem <- struct{}{}
			go func(i int) {
				defer wg.Done()
				defer func() { <-sem }()
				r := rf
				r.Tape = cands[i]
				r.Labels = nil
				f, err := replayFailure(bin, runDir, baseEnv, r, "min")
				if err == nil {
					results[i] = f
				}
			}(i)
		}
		wg.Wait()
		attempts += len(cands)
		for _, f := range results {
			if f != nil && f.Result.Oracle == rf.Oracle {
				last = f
				nt := trim(append([]int(nil), f.Tape...))
				if len(nt) <= len(cur) {
					cur = nt
					labels = f.Labels
				}
				return true
			}
		}
		return false
	}
	steps := func() []int { // start index of every scheduler step, plus len(cur)
		var st []int
		if len(labels) >= len(cur) {
			for i := 0; i < len(cur); i++ {
				if labels[i] == "sched" {
					st = append(st, i)
				}
			}
		}
		if len(st) == 0 { // no labels: fixed-size pseudo steps
			for i := 0; i < len(cur); i += 4 {
				st = append(st, i)
			}
		}
		return append(st, len(cur))
	}
	batch := func(all [][]int) bool {
		for i := 0; i < len(all) && time.Now().Before(deadline); i += 12 {
			j := i + 12
			if j > len(all) {
				j = len(all)
			}
			if try(all[i:j]) {
				return true
			}
		}
		return false
	}
	for round := 0; round < 6 && time.Now().Before(deadline); round++ {
		before := len(cur)
		// 1. shortest failing prefix, in whole steps
		for time.Now().Before(deadline) {
			st := steps()
			n := len(st) - 1
			if n <= 1 {
				break
			}
			var cands [][]int
			seen := map[int]bool{}
			for _, k := range []int{0, n / 8, n / 4, n / 2, n * 3 / 4, n * 7 / 8, n - 2, n - 1} {
				if k >= 0 && k < n && !seen[k] {
					seen[k] = true
					cands = append(cands, trim(append([]int(nil), cur[:st[k]]...)))
				}
			}
			if !try(cands) {
				break
			}
		}
		// 2. delta debugging over steps
		for size := (len(steps()) - 1) / 2; size >= 1 && time.Now().Before(deadline); size /= 2 {
			for again := true; again && time.Now().Before(deadline); {
				again = false
				st := steps()
				var cands [][]int
				for k := 0; k+size < len(st); k += size {
					c := append(append([]int(nil), cur[:st[k]]...), cur[st[k+size]:]...)
					cands = append(cands, trim(c))
				}
				if batch(cands) {
					again = true
				}
			}
		}
		// 3. zero single draws that are not scheduler picks (workload, configuration, faults)
		for again := true; again && time.Now().Before(deadline); {
			again = false
			var cands [][]int
			for i := range cur {
				if cur[i] != 0 && !(i < len(labels) && labels[i] == "sched") {
					c := append([]int(nil), cur...)
					c[i] = 0
					cands = append(cands, trim(c))
				}
			}
			if batch(cands) {
				again = true
			}
		}
		// 4. lower scheduler picks towards the first alternative
		{
			var cands [][]int
			for i := range cur {
				if cur[i] != 0 && i < len(labels) && labels[i] == "sched" {
					c := append([]int(nil), cur...)
					c[i] = 0
					cands = append(cands, trim(c))
				}
			}
			batch(cands)
		}
		if len(cur) >= before {
			break
		}
	}
	rf.Tape = cur
	rf.Labels = nil
	if len(labels) >= len(cur) {
		rf.Labels = labels[:len(cur)]
	}
	rf.Minimised = true
	if last != nil {
		rf.Msg = last.Result.Msg
		rf.Trace = last.Result.Trace
	}
	fmt.Printf("minimised with %d replay attempts\n", attempts)
	// final confirmation in a fresh process
	if res, err := replayOnce(bin, runDir, baseEnv, rf, "final"); err != nil || res == nil || res.Oracle != rf.Oracle {
		fatal2("REPLAY-DIVERGED: minimised tape does not reproduce %s", rf.Oracle)
	}
	return rf
}

func writeEvidence(prop, tier string, master uint64, spec propSpec, a *aggT, det map[string]any, wall float64, violations, workers int) {
	samples := a.Samples
	if len(samples) == 0 {
		samples = []any{"(no sample recorded)"}
	}
	runsPerHour := 0.0
	if wall > 0 {
		runsPerHour = float64(a.Runs) / wall * 3600
	}
	cov := map[string]any{
		"evaluations":          a.Evals,
		"simulated_runs":       a.Runs,
		"distinct_nontrivial":  len(a.hashSet),
		"rule":                 spec.Rule,
		"samples":              samples,
		"nontrivial_runs":      a.Nontrivial,
		"simulated_seconds":    a.SimSeconds,
		"scheduler_steps":      a.Steps,
		"runs_per_hour":        runsPerHour,
		"faults_fired":         a.Faults,
		"probes":               a.Probes,
		"real_vs_stub":         spec.RealStub,
		"determinism_selftest": det,
		"worker_processes":     workers,
		"exhaustive":           spec.Exhaustive,
	}
	if len(a.Others) > 0 {
		cov["other_property_failures_seen"] = a.Others
	}
	if v, ok := a.Probes["traces_validated_against_impl"]; ok {
		cov["traces_validated_against_impl"] = v
	}
	ev := map[string]any{
		"property_id": prop,
		"tier":        tier,
		"seed":        int64(master & 0x7fffffffffffffff),
		"level":       spec.Level,
		"coverage":    cov,
		"assumptions": spec.Assumptions,
		"wall_s":      wall,
		"violations":  violations,
	}
	b, _ := json.MarshalIndent(ev, "", " ")
	os.MkdirAll(filepath.Join(verifDir, "evidence"), 0755)
	os.WriteFile(filepath.Join(verifDir, "evidence", prop+".json"), b, 0644)
}
