package main

func init() {
	props["C01"] = propSpec{
		Engine: "streamsim", Level: "exploration",
		QuickS: 35, ThoroughS: 900, DetSamples: 32, DetSamplesT: 300,
		Rule: "one run = one (input, encoding, UTF16Pos flag, delivery pattern, mode); inputs: every script the repository carries, as UTF-8, as UTF-16LE with a byte-order mark, with tape-chosen byte mutations, or 'token soup' (lines of short random sequences over a per-run subset of the parser's special tokens, in key, value, map, array and edge-group position); modes: chunked full delivery, EOF at every byte offset, I/O error at every byte offset (every offset for inputs <= 1500 bytes quick / 6000 thorough, 48 sampled offsets otherwise), import through a chunking/failing fs.FS; each delivery is compared with one-shot delivery of the same bytes. Distinct = distinct hash of (script, bytes, flags, pattern); all runs inject stream faults so all are non-trivial.",
		Assumptions: []string{
			"stream-delivery slice of C01 only: the input-space half (all byte strings) is sampled by corpus + mutations, not decided",
			"a failing reader is sticky (returns the same error on every later call), like a broken file or pipe",
			"on a non-EOF failure inside a UTF-16 stream up to 3 bytes of an incomplete trailing code unit/surrogate pair may be dropped (the transcoder flushes incomplete input at EOF only)",
			"ParseKey/ParseMapKey/ParseValue take strings (no stream) and are not covered",
		},
		RealStub: map[string]string{"d2parser.Parse": "real", "d2compiler.Compile + d2ir import path": "real", "bufio, x/text transform": "real", "io.Reader / fs.FS": "simulated (fault reader driven by the tape)"},
	}
}

func init() {
	props["C48"] = propSpec{
		Engine: "crashsim", Level: "fault_enumeration",
		QuickS: 40, ThoroughS: 900, DetSamples: 6, DetSamplesT: 40, Exhaustive: true, NeedsD2Bin: true, WatchdogS: 900,
		Rule: "one run = one generated scenario (`d2 fmt` on 1-2 unformatted sources of 28 B - 300 KiB quick / 2 MiB thorough, corpus or generated, multi-byte runes; or a single-board `d2 in.d2 out.svg` with an existing short/long/empty/absent previous output, optionally in a not-yet-existing sub-directory, with --sketch/--theme variations; symlinked targets; the process's TMPDIR is a second simulated file system, and in half of the scenarios a rename or link between the two fails with EXDEV as between two mounts). Per scenario the file-system operations of the uninterrupted command are recorded and EVERY one of them is a crash point (process killed just before it), plus 3 points inside every write (after 1, n/2, n-1 bytes) and one after the last operation: exhaustive per scenario. evaluations = crash-point executions; distinct = distinct (scenario, operation index, bytes written); a scenario is non-trivial when the command really rewrites the target.",
		Assumptions: []string{
			"'killed' = the process stops between two system calls or inside a write after k bytes; power loss / page-cache durability is not modelled (d2 issues no fsync and the property speaks of a killed process)",
			"crash-freeze: from the crash point on every mutating system call of the process fails without executing; reads still succeed (they cannot change the disk)",
			"the non-atomic fallback inside d2cli.Write only runs after the atomic path returned an I/O error and is outside the crash-point quantifier",
			"file-system operations of the command are issued by one goroutine in a deterministic order (checked: every crash run must reproduce the recorded prefix, else exit 2)",
		},
		RealStub: map[string]string{"d2cli.Run (flag parsing, fmt, compile, dagre layout, render, Write)": "real, in-process", "os / syscall layer": "real, with fault points at the syscall wrappers (std overlay)", "kernel file system": "real (tmp sandbox per scenario)", "process death": "simulated by crash-freeze; for one scenario per worker (six in the thorough tier) cross-validated against the real d2 binary: its strace'd mutating system calls must equal the recorded operations, and a real SIGKILL injected by strace on entry of each of them must leave what crash-freeze left"},
	}
}

func init() {
	props["C46"] = propSpec{
		Engine: "bundlesim", Level: "exploration",
		QuickS: 30, ThoroughS: 900, DetSamples: 48, DetSamplesT: 400,
		Rule: "one run = 1-3 successive BundleLocal/BundleRemote calls (cache on or off, images may change between calls) on a generated SVG with 0-40 image references (duplicates, already-bundled data: URIs, local/remote mixed, HTML-escaped and regexp-metacharacter hrefs, prefix pairs, look-alike decoys) inside a synctest bubble. The tape decides the order in which workers start, perform each I/O step and hand over their result, every I/O outcome (EACCES, EIO mid-read, short reads, missing file, directory, HTTP 404/500, transport error, error mid-body, stall until the 1-minute request timeout, oversized body), caller cancellation and every clock advance. Non-trivial = at least two images or at least one fault fired; distinct = distinct hash of the full sequence of scheduling/fault decisions.",
		Assumptions: []string{
			"'eligible' is defined by the reference model as: not a data: URI, and http(s) URL for the remote call / anything else for the local call; the generator only emits hrefs that are unambiguous under this definition",
			"the set (not the order) of references named in the error is compared; the MIME type of a data URI must be the served Content-Type when one was served (text/xml -> image/svg+xml accepted) and non-empty otherwise",
			"a call that the simulator cancelled, or that hit the documented 5-minute limit, may return with any subset of the successful replacements applied (each applied completely), but must return an error if images are missing",
			"progress: a call that has nothing in flight any more (run quiescent, no goroutine held at a scheduling point, no request left unanswered, no cancellation pending) must have returned; coming back only at the global timeout from such a state is a violation",
			"workers that outlive a cancelled call are run to completion (without new faults) before the next call of the same run starts",
		},
		RealStub: map[string]string{"lib/imgbundler (bundle, runWorkers, worker, httpGet, cache)": "real", "net/http client": "real client over a simulated RoundTripper", "HTTP servers": "stub (tape-driven responses and body chunking)", "file system": "real kernel on a tmp sandbox with tape-driven fault points at openat/read", "clock, timers, context deadlines": "synctest fake clock", "goroutine scheduling": "simulator (park points worker.start/worker.done + every I/O step + every attempt to lock imgbundler's mutex)", "map iteration / select order": "runtime seam, salted per run"},
	}
}

var watchRealStub = map[string]string{
	"d2cli.Run --watch (flag parsing, watcher, watchLoop, compileLoop, compile, render, Write, broadcast, handleWatch, writeLoop, close)": "real",
	"net/http server, xhttp.Serve, coder/websocket (server and client side)":                                                              "real, over net.Pipe",
	"layout engine": "stub plugin 'simstub' by default, real dagre in ~8% of runs",
	"fsnotify":      "stub module (simulated inotify: per-inode watches, queueing, auto-removal on delete/rename)",
	"TCP listener / browsers / editor / operator": "simulated actors driven by the tape",
	"kernel file system":                          "real (tmp sandbox); scheduling points when the compiler opens sources",
	"clock and timers":                            "synctest fake clock; jumps stop early when a goroutine reaches a park point",
	"goroutine scheduling":                        "simulator: 22 park points in watch.go, every attempt of d2 code to lock one of its mutexes (sync overlay), every actor step; one release per decision",
	"mutexes of d2 (watcher's six)":               "simulated: a lock attempt is a scheduling point, a taken mutex leads back to it (no blocking inside the runtime); mutexes of libraries are real",
	"map iteration / select order":                "runtime seam, salted per run",
}

func init() {
	props["C44"] = propSpec{
		Engine: "watchsim", Level: "exploration",
		QuickS: 110, ThoroughS: 1500, DetSamples: 24, DetSamplesT: 200,
		Rule: "one run = the real `d2 --watch` in a synctest bubble with 0-5 simulated browser clients (connect at any time, read, stall, close, drop, drop mid-handshake), 0-12 saves of the input and (half of the runs) of an imported file and a file imported by that one, in three editor styles (truncate+write in chunks, write temp+rename over, rename away+create, with torn intermediate states), saves that drop and later restore the import, a browser tab navigating between the boards of a multi-board input (page GETs that switch the rendered board and request a compile), simulated inotify (duplicates, dropped write events, transiently failing re-watch, errors on the Errors channel). The tape picks which parked goroutine or actor proceeds and when the clock advances. After the last save - and, as checkpoints, after a third of the other saves - faults stop and the run continues for 60 simulated seconds; then per-client order (every client's frames are a subsequence, with repetitions, of the results the compile loop stored) and final delivery (latest content of every file, board navigated to last) are checked. Non-trivial = at least one client and one save; distinct = distinct hash of the full decision sequence.",
		Assumptions: []string{
			"environment: the last save leaves the file present; modification times increase with every save; only plain Write events are ever dropped (the watch stays and the 10 s poll can still see the change); fs event loss that also loses the watch (inotify queue overflow) is outside the property's quantifier",
			"duplicates are allowed (the statement allows them and the real watcher re-broadcasts on its poll tick)",
			"final delivery is demanded only of clients that are still connected; a client the simulator kept from reading for >= 4 simulated seconds may be disconnected by the server (5 s write timeout of the heartbeat's ping, 30 s for results)",
			"liveness bound once faults stop: 60 simulated seconds",
			"a page GET is only started while no compile is in progress (handleRoot takes the mutex the compile loop holds across a compile, and a goroutine blocked on a mutex keeps a synctest bubble from quiescing); the mutex serialises the two anyway",
		},
		RealStub: watchRealStub,
	}
	props["C45"] = propSpec{
		Engine: "watchsim", Level: "exploration",
		QuickS: 90, ThoroughS: 1200, DetSamples: 24, DetSamplesT: 200,
		Rule: "same simulator as C44 with the operator's SIGTERM/SIGINT delivered at a tape-chosen step (30x more likely while a client sits between admission, upgrade and registration or is mid-handshake); clients keep connecting, stalling and dropping during shutdown. Checked: at the instant close() returns every started handler has exited and admitted = exited + failed upgrades; no admission is ordered after close began; `d2 --watch` returns without xmain's 1-minute forced exit (the clock only runs while the simulator holds no server goroutine); no panic; no d2cli goroutine alive two simulated hours later. Non-trivial = at least one client; distinct = distinct decision-sequence hash.",
		Assumptions: []string{
			"trace events ws.admitted and close.begin are emitted under the watcher's client mutex, so their order in the trace is the lock order",
			"the shutdown bound is applied with the simulator's own delays excluded; simulated clients may still stall for up to 2 simulated minutes after the signal",
		},
		RealStub: watchRealStub,
	}
}

var pipeRealStub = map[string]string{
	"d2parser, d2compiler, d2ir, d2graph, d2exporter":                              "real",
	"d2lib.Compile, d2layouts (nested/grid/sequence/near), dagre and ELK via goja": "real (C25)",
	"d2svg, d2sketch, d2fonts, textmeasure":                                        "real (C25)",
	"import file system":                                                           "in-memory fs.FS whose Open is a scheduling point",
	"caller tasks":                                                                 "goroutines released one at a time by the simulator at stage boundaries (start, import, compile, layout per nested graph, render per board) and at about 12 600 statement-level scheduling points written into d2's pipeline packages by a source overlay (no change to /repo)",
	"goroutines that the pipeline starts itself (none on the unchanged tree)":      "scheduled like tasks when started as go func(){...}() or x.Go(func(){...}) (announced by the source overlay) and joined through sync.WaitGroup (Wait is a scheduling point, sync overlay); go f(x) and channel rendezvous are not",
	"layout plugins (C25)":                                                         "half of the specs reach dagre/ELK through d2plugin's bundled plugin objects, hydrated once per process from the flag defaults as the CLI does; the others through DefaultLayout",
	"map iteration / select":                                                       "runtime seam: a function of the tape, re-derived at every release",
	"wall clock (time.Now) of a task":                                              "simulated: advances by a tape-chosen rate (50 ns ... 2 ms) per scheduling point, drawn anew for every slice",
	"reference":                                                                    "separate OS process, different seed, reversed order, no neighbours",
}

func init() {
	props["C08"] = propSpec{
		Engine: "pipesim", Level: "exploration",
		QuickS: 45, ThoroughS: 900, DetSamples: 12, DetSamplesT: 100, WatchdogS: 600,
		Rule: "one run = one session: 1-3 task specs (scripts harvested from the repository's tests and data in index order plus random picks, or generated scripts with >=3 entries per collection; optional importable files), each executed 2-3 times (5-6 when state shared between executions was found) as caller tasks that the tape interleaves in one of four modes drawn per session - at stage boundaries only; after a tape-chosen number of scheduling points of any kind; only right after stores to fields, elements and pointees; or directed at store sites (preferably ones that a profiling pass found to write memory that outlives an execution), where a second task is then run up to the same store and the first one continues - optionally with font registrations in between, under a per-run map-order/select seam; every execution's canonical graph JSON or error list must equal every other execution of the same spec and a reference from a separate process under another seed. evaluations = executions + reference computations; distinct = distinct (spec, interleaving) pairs.",
		Assumptions: []string{
			"the simulator serialises execution: one task runs at a time and can lose the CPU between any two statements of d2's own pipeline packages (scheduling points from cmd/yieldgen's source overlay: function and loop entries, branches, before and after stores through selectors, indexes and pointers), never while it holds a sync.Mutex/RWMutex (sync overlay), and never inside code of a dependency; effects that need two threads inside one statement or inside a dependency are not observable",
			"if the rewritten tree does not build, the engine is built without the statement-level points, says so in its output, and interleaves at stage boundaries only",
			"a statement-level schedule is not reproducible across processes (the number of scheduling points a stage passes depends on the order of pointer-keyed maps, i.e. on addresses); the determinism self-test of such sessions compares inputs and results, and a violation whose replay misses the window is reported with its recorded trace",
			"inputs are sampled (repository corpus + generator), not enumerated",
		},
		RealStub: pipeRealStub,
	}
	props["C25"] = propSpec{
		Engine: "pipesim", Level: "exploration",
		QuickS: 120, ThoroughS: 1800, DetSamples: 4, DetSamplesT: 40, WatchdogS: 900,
		Rule: "as C08 but through d2lib.Compile (dagre, ELK in ~10% of specs; one session in six is ELK-only through the plugin object, with generated self-loops), d2exporter and d2svg.Render of every board, with sketch mode, theme, dark theme, pad and center drawn from the tape; the compared result is the SVG bytes of all boards. Scripts are limited to 2.5 KB quick / 20 KB thorough to bound layout time.",
		Assumptions: []string{
			"as C08; shared state that exists here (font registry under its mutex, goldmark instance, dagre plugin options) is exercised at stage and at statement granularity; a task holding a lock is never stopped",
			"Math.random inside the bundled JS engines would draw from the seam (runtime.rand) and show as a cross-seed difference",
		},
		RealStub: pipeRealStub,
	}
}

func init() {
	props["C07"] = propSpec{
		Engine: "streamsim", Level: "exploration",
		QuickS: 30, ThoroughS: 900, DetSamples: 32, DetSamplesT: 300,
		Rule: "import slice of C07. One run = d2compiler.Compile of index.d2 (imports of a generated file set in front of a harvested or minimal program) over a simulated file system: 1-4 importable files in nested directories whose import graph (spread imports, value imports, imports inside maps and layers, import keys, relative paths with '..', optional .d2 extension, cycles of every length, missing files, directories, absolute paths, malformed import statements) and bodies (globs, triple globs, substitutions and spread substitutions resolved by the importer or by nobody, classes, boards, nulls) come from the tape; every Open/Read is served one-shot or in tape-chosen chunks (1 byte ... 4097 bytes, empty reads, data together with EOF), fails at open, fails after k bytes, is a directory, or serves other content from the second open on. Compared against a reference model of the import graph and against one-shot delivery. Distinct = distinct (main, import graph).",
		Assumptions: []string{
			"slice: the file-system side of C07 (importable files, their delivery and failures, import cycles, termination counted in file-system operations: at most 100 000 opens per compilation and 8*size+2000 reads per file). Totality over all programs is sampled only (harvested corpus in index order + snippets), and CPU time is not observed",
			"a broken file stays broken: the fault kind is chosen per file, because the compiler opens some imports twice and rightly ignores a failure of the first, tentative open",
			"the cycle oracle is applied only when the model knows every import (the harvested part of index.d2 contains no import of its own and the file parses)",
		},
		RealStub: map[string]string{"d2compiler.Compile, d2ir (imports, cycle detection, substitutions, globs), d2parser": "real", "fs.FS / fs.File": "simulated (tape-driven opens, chunking, failures, changing content)", "reference": "model of the import graph (depth-first search for a reachable cycle) + one-shot delivery of the same files"},
	}
	crashOracle["C07"] = "O07.1"
}
