package main

func init() {
	props["C01"] = propSpec{
		Engine: "streamsim", Level: "exploration",
		QuickS: 35, ThoroughS: 900, DetSamples: 32, DetSamplesT: 300,
		Rule: "one run = one (corpus script, encoding, UTF16Pos flag, delivery pattern, mode); modes: chunked full delivery, EOF at every byte offset, I/O error at every byte offset (every offset for inputs <= 1500 bytes quick / 6000 thorough, 48 sampled offsets otherwise), import through a chunking/failing fs.FS; each delivery is compared with one-shot delivery of the same bytes. Distinct = distinct hash of (script, bytes, flags, pattern); all runs inject stream faults so all are non-trivial.",
		Assumptions: []string{
			"stream-delivery slice of C01 only: the input-space half (all byte strings) is sampled by corpus + mutations, not decided",
			"a failing reader is sticky (returns the same error on every later call), like a broken file or pipe",
			"on a non-EOF failure inside a UTF-16 stream up to 3 bytes of an incomplete trailing code unit/surrogate pair may be dropped (the transcoder flushes incomplete input at EOF only)",
			"ParseKey/ParseMapKey/ParseValue take strings (no stream) and are not covered",
		},
		RealStub: map[string]string{"d2parser.Parse": "real", "d2compiler.Compile + d2ir import path": "real", "bufio, x/text transform": "real", "io.Reader / fs.FS": "simulated (fault reader driven by the tape)"},
	}
}
