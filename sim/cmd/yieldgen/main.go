// Command yieldgen writes a `go build -overlay` source set in which the pipeline packages of
// terrastruct/d2 (parser, compiler, IR, graph, layouts, exporter, renderers, themes, lib/*)
// carry a scheduling point — verifhook.Yield("s", nil) — at the entry of every function and
// function literal, at the top of every loop body, if/else body and case clause, and around
// every assignment whose left-hand side is not a plain local name (a field, an element, a
// dereference). Nothing in /repo is touched: the rewritten files live under the output
// directory and are selected by the overlay only for the simulation build of pipesim.
//
// The text is edited at byte offsets taken from go/parser positions (no pretty-printing): every
// insertion stays on the line it belongs to, so comments, directives and line numbers are as
// in the original.
//
// usage: yieldgen -repo DIR -out DIR   (writes DIR/src-overlay.json)
package main

import (
	"encoding/json"
	"flag"
	"fmt"
	"go/ast"
	"go/parser"
	"go/token"
	"os"
	"path/filepath"
	"sort"
	"strings"
)

var include = []string{"d2ast", "d2compiler", "d2exporter", "d2format", "d2graph", "d2ir", "d2layouts", "d2lib", "d2parser", "d2plugin",
	"d2renderers", "d2target", "d2themes", "lib"}

var exclude = []string{"lib/verifhook", "lib/png", "lib/pdf", "lib/pptx", "lib/xgif", "lib/imgbundler", "lib/version", "lib/background", "lib/log", "lib/env", "lib/compression", "lib/simplelog"}

const call = `vhkYield.Yield("s", nil)` // entry of a function, loop body, branch; before a store

var siteSeq int

// callW: right after a store to a field, element or pointee; every such site has a name, and
// where the syntax allows it the hook is told which memory was stored to (the address of the
// field or pointee; for an element, the address of the variable or field holding the slice,
// array or map), so that the simulator can learn which store sites touch state that outlives
// one execution.
func callW(src []byte, off func(token.Pos) int, lhs ast.Expr) string {
	siteSeq++
	return fmt.Sprintf(`vhkYield.Yield("w%d", %s)`, siteSeq, addrOf(src, off, lhs))
}

// plain: built from names, field selections, dereferences and parentheses only (always
// addressable when it is assignable or indexable-for-assignment).
func plain(e ast.Expr) bool {
	switch x := e.(type) {
	case *ast.Ident:
		return x.Name != "_"
	case *ast.ParenExpr:
		return plain(x.X)
	case *ast.SelectorExpr:
		return plain(x.X)
	case *ast.StarExpr:
		return plain(x.X)
	}
	return false
}

func addrOf(src []byte, off func(token.Pos) int, lhs ast.Expr) string {
	text := func(e ast.Expr) string { return string(src[off(e.Pos()):off(e.End())]) }
	for {
		switch x := lhs.(type) {
		case *ast.ParenExpr:
			lhs = x.X
			continue
		case *ast.IndexExpr:
			lhs = x.X // the container
			continue
		case *ast.StarExpr:
			if plain(x.X) {
				return "(" + text(x.X) + ")" // *p = v: p itself
			}
			return "nil"
		case *ast.SelectorExpr:
			if plain(x) {
				return "&(" + text(x) + ")"
			}
			return "nil"
		case *ast.Ident:
			if x.Name != "_" {
				return "&(" + x.Name + ")"
			}
			return "nil"
		}
		return "nil"
	}
}

type edit struct {
	off  int
	text string
	ord  int
}

func nonLocal(e ast.Expr) bool {
	switch x := e.(type) {
	case *ast.ParenExpr:
		return nonLocal(x.X)
	case *ast.SelectorExpr, *ast.IndexExpr, *ast.StarExpr, *ast.IndexListExpr:
		return true
	}
	return false
}

func rewrite(path string) ([]byte, int, error) {
	src, err := os.ReadFile(path)
	if err != nil {
		return nil, 0, err
	}
	fset := token.NewFileSet()
	f, err := parser.ParseFile(fset, path, src, parser.SkipObjectResolution)
	if err != nil {
		return nil, 0, err
	}
	if f.Name.Name == "main" {
		return nil, 0, nil
	}
	off := func(p token.Pos) int { return fset.Position(p).Offset }
	var edits []edit
	add := func(o int, t string) { edits = append(edits, edit{o, t, len(edits)}) }
	points := 0
	stmts := func(list []ast.Stmt) {
		for _, st := range list {
			switch s := st.(type) {
			case *ast.AssignStmt:
				var nl ast.Expr
				for _, l := range s.Lhs {
					if nonLocal(l) && nl == nil {
						nl = l
					}
				}
				if nl != nil {
					add(off(s.Pos()), call+"; ")
					add(off(s.End()), "; "+callW(src, off, nl))
					points += 2
				}
			case *ast.ExprStmt:
				// eg.Go(func() error {...}) / wg.Go(func() {...}): a goroutine started through
				// errgroup or sync.WaitGroup.Go; announced like a go statement. (Should Go
				// run the literal on the caller's own goroutine, the simulator notices and
				// takes the announcement back.)
				if c, ok := s.X.(*ast.CallExpr); ok && len(c.Args) == 1 {
					if sel, ok := c.Fun.(*ast.SelectorExpr); ok && sel.Sel.Name == "Go" {
						if fl, ok := c.Args[0].(*ast.FuncLit); ok && fl.Body != nil {
							add(off(s.Pos()), `vhkYield.Yield("G", nil); `)
							add(off(fl.Body.Lbrace)+1, ` vhkYield.Yield("g", nil); defer vhkYield.Yield("x", nil); `)
							points += 3
						}
					}
				}
			case *ast.IncDecStmt:
				if nonLocal(s.X) {
					add(off(s.Pos()), call+"; ")
					add(off(s.End()), "; "+callW(src, off, s.X))
					points += 2
				}
			}
		}
	}
	block := func(b *ast.BlockStmt) {
		if b == nil {
			return
		}
		add(off(b.Lbrace)+1, " "+call+"; ")
		points++
	}
	ast.Inspect(f, func(n ast.Node) bool {
		switch x := n.(type) {
		case *ast.GoStmt:
			// A goroutine that the pipeline starts itself: the go statement is announced
			// ("G"), the new goroutine reports in with its first statement ("g") and out with
			// its last ("x", deferred first, so it runs after the function's own defers), so
			// that the simulator can schedule it like a task. Only the literal form; a
			// goroutine started as `go f(x)` runs freely.
			if fl, ok := x.Call.Fun.(*ast.FuncLit); ok && fl.Body != nil {
				add(off(x.Pos()), `vhkYield.Yield("G", nil); `)
				add(off(fl.Body.Lbrace)+1, ` vhkYield.Yield("g", nil); defer vhkYield.Yield("x", nil); `)
				points += 3
			}
		case *ast.FuncDecl:
			block(x.Body)
		case *ast.FuncLit:
			block(x.Body)
		case *ast.ForStmt:
			block(x.Body)
		case *ast.RangeStmt:
			block(x.Body)
		case *ast.IfStmt:
			block(x.Body)
			if eb, ok := x.Else.(*ast.BlockStmt); ok {
				block(eb)
			}
		case *ast.CaseClause:
			add(off(x.Colon)+1, " "+call+"; ")
			points++
			stmts(x.Body)
		case *ast.CommClause:
			add(off(x.Colon)+1, " "+call+"; ")
			points++
			stmts(x.Body)
		case *ast.BlockStmt:
			stmts(x.List)
		}
		return true
	})
	if points == 0 {
		return nil, 0, nil
	}
	// the import goes on the line of the package clause
	add(off(f.Name.End()), `; import vhkYield "oss.terrastruct.com/d2/lib/verifhook"`)
	sort.Slice(edits, func(i, j int) bool {
		if edits[i].off != edits[j].off {
			return edits[i].off < edits[j].off
		}
		return edits[i].ord < edits[j].ord
	})
	var out []byte
	last := 0
	for _, e := range edits {
		out = append(out, src[last:e.off]...)
		out = append(out, e.text...)
		last = e.off
	}
	out = append(out, src[last:]...)
	// must still parse
	if _, err := parser.ParseFile(token.NewFileSet(), path, out, parser.SkipObjectResolution); err != nil {
		return nil, 0, fmt.Errorf("rewritten file does not parse: %v", err)
	}
	return out, points, nil
}

func main() {
	repo := flag.String("repo", "/repo", "repository directory")
	out := flag.String("out", "", "output directory")
	flag.Parse()
	if *out == "" {
		fmt.Fprintln(os.Stderr, "yieldgen: -out required")
		os.Exit(2)
	}
	os.MkdirAll(*out, 0755)
	replace := map[string]string{}
	files, points, skipped := 0, 0, 0
	for _, top := range include {
		filepath.Walk(filepath.Join(*repo, top), func(p string, info os.FileInfo, err error) error {
			if err != nil {
				return nil
			}
			rel, _ := filepath.Rel(*repo, p)
			if info.IsDir() {
				if info.Name() == "testdata" || strings.HasPrefix(info.Name(), ".") || info.Name() == "node_modules" {
					return filepath.SkipDir
				}
				for _, ex := range exclude {
					if rel == ex {
						return filepath.SkipDir
					}
				}
				return nil
			}
			if !strings.HasSuffix(p, ".go") || strings.HasSuffix(p, "_test.go") {
				return nil
			}
			b, n, err := rewrite(p)
			if err != nil {
				// leave the file as it is: fewer scheduling points, same program
				fmt.Fprintf(os.Stderr, "yieldgen: %s left uninstrumented: %v\n", rel, err)
				skipped++
				return nil
			}
			if b == nil {
				return nil
			}
			dst := filepath.Join(*out, strings.ReplaceAll(rel, "/", "__"))
			if err := os.WriteFile(dst, b, 0644); err != nil {
				fmt.Fprintf(os.Stderr, "yieldgen: %v\n", err)
				os.Exit(2)
			}
			replace[p] = dst
			files++
			points += n
			return nil
		})
	}
	jb, _ := json.MarshalIndent(map[string]any{"Replace": replace}, "", " ")
	if err := os.WriteFile(filepath.Join(*out, "src-overlay.json"), jb, 0644); err != nil {
		fmt.Fprintf(os.Stderr, "yieldgen: %v\n", err)
		os.Exit(2)
	}
	fmt.Printf("yieldgen: %d files instrumented with %d scheduling points (%d left as they are)\n", files, points, skipped)
}
