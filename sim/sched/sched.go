// Package sched is the simulator's scheduler for engines that run real goroutines inside a
// testing/synctest bubble. Goroutines hand control to the simulator at park points; the
// root goroutine waits for quiescence (synctest.Wait), builds the enabled set in canonical
// order, lets the tape pick one entry, and releases exactly that one. Time is the
// bubble's fake clock and only advances when the scheduler chooses "advance time".
package sched

import (
	"fmt"
	"os"
	"runtime"
	"sort"
	"strings"
	"sync"
	"testing/synctest"
	"time"

	"verifsim/tape"
)

var debugKeys = os.Getenv("VSIM_DEBUG_KEYS") == "1"

type Option struct {
	Name   string
	Weight int
}

var Go = []Option{{"go", 1}}

type entry struct {
	key  string
	opts []Option
	ch   chan int
	w    int // class weight multiplier
}

type Sim struct {
	T *tape.Tape

	mu        sync.Mutex
	parked    map[string]*entry
	draining  bool
	trace     []string
	traceStep []int
	events    []Event
	start     time.Time
	Steps     int
	MaxSteps  int

	// TimeWeight is the weight of "advance time" relative to a parked entry's weight.
	TimeWeight int
	// ClassWeight maps a key prefix (up to the first ':') to a multiplier (default 1).
	ClassWeight map[string]int
	// Advances are the candidate time steps while something is parked; IdleAdvances
	// those used when time is the only thing that can move.
	Advances     []time.Duration
	IdleAdvances []time.Duration

	// OnEvent, when set, sees every trace event (called with the lock held; must not block).
	OnEvent func(Event)

	// Norm, when set, normalises keys before they enter the schedule hash and the trace
	// (e.g. replaces the per-process sandbox directory).
	Norm func(string) string

	// MaxSlice bounds the slices of a time jump; NoEarlyStop disables the early stop.
	MaxSlice    time.Duration
	NoEarlyStop bool

	// Sequential mode (no synctest bubble): exactly one task runs at a time and tasks
	// block only at park points, so quiescence is "the released task parked again or
	// finished"; tasks report through evCh.
	seq  bool
	evCh chan struct{}

	schedHash uint64
	idle      int
}

// NewSequential returns a scheduler for tasks that never block outside park points. The
// caller starts n goroutines, calls AwaitEvents(n) once, and every task calls TaskDone
// when it finishes.
func NewSequential(tp *tape.Tape) *Sim {
	s := New(tp)
	s.seq = true
	s.evCh = make(chan struct{}, 1<<16)
	s.TimeWeight = 0
	return s
}

// AwaitEvents blocks until n park/done events were reported (sequential mode).
func (s *Sim) AwaitEvents(n int) {
	for i := 0; i < n; i++ {
		<-s.evCh
	}
}

// TaskDone reports that a task finished (sequential mode).
func (s *Sim) TaskDone() {
	if s.seq {
		s.evCh <- struct{}{}
	}
}

func (s *Sim) wait() {
	if !s.seq {
		synctest.Wait()
	}
}

type Event struct {
	Seq  int
	At   time.Duration
	Name string
	Arg  any
}

func New(tp *tape.Tape) *Sim {
	return &Sim{
		T: tp, parked: map[string]*entry{}, start: time.Now(), MaxSteps: 600, TimeWeight: 1,
		ClassWeight:  map[string]int{},
		Advances:     []time.Duration{time.Millisecond, 16 * time.Millisecond, 100 * time.Millisecond, time.Second, 10 * time.Second, 30 * time.Second, time.Minute},
		IdleAdvances: []time.Duration{16 * time.Millisecond, time.Second, 10 * time.Second, 30 * time.Second, time.Minute, 5 * time.Minute},
		schedHash:    1469598103934665603,
	}
}

func (s *Sim) Now() time.Duration { return time.Since(s.start) }

// Emit records a trace event (non-blocking; callable from any goroutine, also with
// system mutexes held).
func (s *Sim) Emit(name string, arg any) {
	s.mu.Lock()
	ev := Event{Seq: len(s.events), At: time.Since(s.start), Name: name, Arg: arg}
	s.events = append(s.events, ev)
	if s.OnEvent != nil {
		s.OnEvent(ev)
	}
	s.mu.Unlock()
}

func (s *Sim) Events() []Event {
	s.mu.Lock()
	defer s.mu.Unlock()
	return append([]Event(nil), s.events...)
}

func (s *Sim) Logf(format string, a ...any) {
	line := fmt.Sprintf(format, a...)
	if s.Norm != nil {
		line = s.Norm(line)
	}
	s.mu.Lock()
	stamp := fmt.Sprintf("%8.3fs ", time.Since(s.start).Seconds())
	if s.seq {
		stamp = fmt.Sprintf("step %4d ", s.Steps) // no simulated clock outside a bubble
	}
	s.trace = append(s.trace, stamp+line)
	s.traceStep = append(s.traceStep, s.Steps)
	s.mu.Unlock()
}

// Trace returns the log. Lines that goroutines emitted concurrently within one scheduler
// step (e.g. two clients noticing the same close at the same instant) are put in
// canonical order; the decision line of the step stays first.
func (s *Sim) Trace() []string {
	s.mu.Lock()
	defer s.mu.Unlock()
	out := append([]string(nil), s.trace...)
	for i := 0; i < len(out); {
		j := i + 1
		for j < len(out) && s.traceStep[j] == s.traceStep[i] {
			j++
		}
		if j-i > 2 {
			sort.Strings(out[i+1 : j])
		}
		i = j
	}
	return out
}

// GID is a short deterministic id of the calling goroutine (runtime seam lineage).
func GID() string {
	return fmt.Sprintf("%04x", runtime.VerifGID()&0xffff)
}

// Park blocks the calling goroutine until the scheduler releases it and returns the index
// of the option the tape chose. key must identify the parked goroutine deterministically;
// a duplicate key gets a numeric suffix.
func (s *Sim) Park(key string, opts []Option) int { return s.park(key, opts, nil) }

// ParkQuiet is Park for a goroutine that nobody released (one that the system under test
// has just started): in sequential mode its arrival is not the event the scheduler waits for
// after a release. registered is called once the goroutine is among the parked ones.
func (s *Sim) ParkQuiet(key string, opts []Option, registered func()) int {
	if registered == nil {
		registered = func() {}
	}
	return s.park(key, opts, registered)
}

func (s *Sim) park(key string, opts []Option, quiet func()) int {
	s.mu.Lock()
	if s.draining {
		s.mu.Unlock()
		return 0
	}
	k := key
	for i := 2; ; i++ {
		if _, dup := s.parked[k]; !dup {
			break
		}
		k = fmt.Sprintf("%s#%d", key, i)
	}
	e := &entry{key: k, opts: opts, ch: make(chan int, 1)}
	s.parked[k] = e
	s.mu.Unlock()
	if quiet != nil {
		quiet()
	} else if s.seq {
		s.evCh <- struct{}{}
	}
	r := <-e.ch
	// Fresh random stream (map order, select order) for the released goroutine, named by
	// the decision that released it: independent of the goroutine's history.
	nk := k
	if s.Norm != nil {
		nk = s.Norm(k)
	}
	runtime.VerifReseed(releaseEpoch(nk, r>>8))
	return r & 0xff
}

func releaseEpoch(key string, step int) uint64 {
	h := uint64(1469598103934665603)
	for i := 0; i < len(key); i++ {
		h ^= uint64(key[i])
		h *= 1099511628211
	}
	return h ^ uint64(step)*0x9e3779b97f4a7c15
}

// Yield is Park with the single option "go".
func (s *Sim) Yield(key string) { s.Park(key, Go) }

// Drain releases every parked goroutine and turns all later parks into no-ops. Used to let
// the system run to completion at the end of a run.
func (s *Sim) Drain() {
	s.mu.Lock()
	s.draining = true
	var es []*entry
	for _, e := range s.parked {
		es = append(es, e)
	}
	s.parked = map[string]*entry{}
	s.mu.Unlock()
	for _, e := range es {
		e.ch <- 0
	}
}

// Flush releases parked goroutines (option 0, no tape draws) until none is parked at
// quiescence; later parks work normally again.
func (s *Sim) Flush() {
	for i := 0; i < 10000; i++ {
		synctest.Wait()
		s.mu.Lock()
		var es []*entry
		for _, e := range s.parked {
			es = append(es, e)
		}
		s.parked = map[string]*entry{}
		s.mu.Unlock()
		if len(es) == 0 {
			return
		}
		for _, e := range es {
			e.ch <- 0
		}
	}
}

func (s *Sim) Draining() bool {
	s.mu.Lock()
	defer s.mu.Unlock()
	return s.draining
}

// ParkedKeys returns the canonical list of parked keys (call after Quiesce).
func (s *Sim) ParkedKeys() []string {
	s.mu.Lock()
	defer s.mu.Unlock()
	ks := make([]string, 0, len(s.parked))
	for k := range s.parked {
		ks = append(ks, k)
	}
	sort.Strings(ks)
	return ks
}

func (s *Sim) Quiesce() { s.wait() }

func class(key string) string {
	if i := strings.IndexByte(key, ':'); i >= 0 {
		return key[:i]
	}
	return key
}

// Filter, when non-nil, can veto releasing a parked key at this moment.
type Filter func(key string) bool

// Step performs one scheduling decision. It returns false when nothing is parked and the
// caller should decide whether to advance time or stop. allowTime controls whether
// "advance time" is among the alternatives.
func (s *Sim) Step(allowTime bool, filter Filter) (progressed bool) {
	s.wait()
	s.mu.Lock()
	keys := make([]string, 0, len(s.parked))
	for k := range s.parked {
		if filter == nil || filter(k) {
			keys = append(keys, k)
		}
	}
	sort.Strings(keys)
	type alt struct {
		key string
		opt int
	}
	var alts []alt
	var weights []int
	for _, k := range keys {
		e := s.parked[k]
		m := 1
		if w, ok := s.ClassWeight[class(k)]; ok {
			m = w
		}
		for i, o := range e.opts {
			if o.Weight*m > 0 {
				alts = append(alts, alt{k, i})
				weights = append(weights, o.Weight*m)
			}
		}
	}
	nTimeAlt := 0
	if allowTime && s.TimeWeight > 0 {
		nTimeAlt = 1
		alts = append(alts, alt{"", -1})
		weights = append(weights, s.TimeWeight)
	}
	if len(alts) == 0 {
		s.mu.Unlock()
		return false
	}
	s.mu.Unlock()
	if debugKeys {
		s.Logf("  enabled: %s", strings.Join(keys, " | "))
	}
	pick := s.T.Weighted(weights, "sched")
	a := alts[pick]
	s.Steps++
	if a.opt < 0 {
		adv := s.Advances
		if len(alts) == nTimeAlt {
			adv = s.IdleAdvances
		}
		d := adv[s.T.Draw(len(adv), "advance")]
		s.Advance(d)
		return true
	}
	s.mu.Lock()
	e := s.parked[a.key]
	delete(s.parked, a.key)
	s.mu.Unlock()
	s.hash(a.key, e.opts[a.opt].Name)
	if len(e.opts) > 1 || e.opts[0].Name != "go" {
		s.Logf("release %s -> %s", a.key, e.opts[a.opt].Name)
	} else {
		s.Logf("release %s", a.key)
	}
	e.ch <- s.Steps<<8 | a.opt
	if s.seq {
		<-s.evCh // the released task parked again or finished
	}
	return true
}

// Advance moves the fake clock by up to d (root goroutine only). The jump is made in
// growing slices (1 ms, x1.25 each) and stops early as soon as a goroutine sits at a park
// point, so the simulator never holds a goroutine parked through a long jump: timers that
// fire inside the interval get their turn at (close to) their own time.
func (s *Sim) Advance(d time.Duration) {
	s.hash("T", d.String())
	start := time.Now()
	slice := time.Millisecond
	if s.MaxSlice > 0 && slice > s.MaxSlice {
		slice = s.MaxSlice
	}
	s.mu.Lock()
	before := make(map[string]bool, len(s.parked))
	for k := range s.parked {
		before[k] = true
	}
	s.mu.Unlock()
	for left := d; left > 0; {
		if slice > left {
			slice = left
		}
		time.Sleep(slice)
		left -= slice
		synctest.Wait()
		s.mu.Lock()
		n := 0
		for k := range s.parked {
			if !before[k] {
				n++
			}
		}
		s.mu.Unlock()
		if n > 0 && !s.NoEarlyStop {
			break
		}
		slice += slice / 4
		if slice < time.Millisecond {
			slice = time.Millisecond
		}
		if s.MaxSlice > 0 && slice > s.MaxSlice {
			slice = s.MaxSlice
		}
	}
	got := time.Since(start)
	if got == d {
		s.Logf("advance time by %v", d)
	} else {
		s.Logf("advance time by %v (of %v: a goroutine reached a park point)", got, d)
	}
}

func (s *Sim) hash(a, b string) {
	if s.Norm != nil {
		a = s.Norm(a)
	}
	for _, str := range []string{a, "\x00", b, "\x01"} {
		for i := 0; i < len(str); i++ {
			s.schedHash ^= uint64(str[i])
			s.schedHash *= 1099511628211
		}
	}
}

// SchedHash identifies the sequence of scheduling decisions taken so far.
func (s *Sim) SchedHash() uint64 { return s.schedHash }

// BubbleGoroutines returns the stacks of all goroutines of the current synctest bubble
// except the caller's (call from the root goroutine after Quiesce).
func BubbleGoroutines() []string { return bubbleGoroutines(true) }

// AllBubbleGoroutines is BubbleGoroutines for callers outside the bubble (after a
// deadlock panic was recovered): nothing is skipped.
func AllBubbleGoroutines() []string { return bubbleGoroutines(false) }

func bubbleGoroutines(skipCaller bool) []string {
	buf := make([]byte, 1<<20)
	for {
		n := runtime.Stack(buf, true)
		if n < len(buf) {
			buf = buf[:n]
			break
		}
		buf = make([]byte, 2*len(buf))
	}
	var out []string
	for i, g := range strings.Split(string(buf), "\n\n") {
		if i == 0 && skipCaller {
			continue // the caller
		}
		head := g
		if j := strings.IndexByte(g, '\n'); j >= 0 {
			head = g[:j]
		}
		if strings.Contains(head, "synctest bubble") {
			out = append(out, g)
		}
	}
	return out
}
