package sched

import (
	"runtime"
	"strings"
	"sync"
	"sync/atomic"
	"unsafe"
)

// MutexSim puts the sync.Mutex values that code of terrastruct/d2 locks under the simulator
// (standard-library overlay, sync.VerifMutexHooks): every attempt of d2 code to take a mutex
// is a scheduling point, and an attempt that finds the mutex taken returns to the
// scheduling point instead of blocking inside the runtime's semaphore (which would keep a
// synctest bubble from quiescing). So who gets a contended lock is a scheduler decision, a
// goroutine can lose the CPU while it holds one lock and asks for another (a lock-order
// inversion becomes a deadlock the simulator can walk into: both sides keep coming back to
// their scheduling points and the run's liveness oracles fire), and d2 code may be parked
// inside a critical section.
//
// Nothing here may use a sync.Mutex on a path from Lock: it would call back into the hooks.
type MutexSim struct {
	Sim *Sim
	// Name tells the deterministic name of the calling goroutine (for the park key).
	Name func() string

	targets atomic.Pointer[map[uintptr]string] // caller PC -> site name ("" = not d2's)

	Attempts  atomic.Int64
	Contended atomic.Int64
}

// site classifies the caller of Lock: the function that contains the call, if it belongs to
// terrastruct/d2 (not to the hook package the simulator itself is called through).
func (ms *MutexSim) site(pc uintptr) string {
	if m := ms.targets.Load(); m != nil {
		if s, ok := (*m)[pc]; ok {
			return s
		}
	}
	name := ""
	fr, _ := runtime.CallersFrames([]uintptr{pc}).Next()
	fn := fr.Function
	if strings.HasPrefix(fn, "oss.terrastruct.com/d2/") && !strings.Contains(fn, "/lib/verifhook") {
		// oss.terrastruct.com/d2/d2cli.(*watcher).broadcast -> watcher.broadcast
		short := fn[strings.LastIndex(fn, "/")+1:]
		if i := strings.Index(short, "."); i >= 0 {
			short = short[i+1:]
		}
		name = strings.NewReplacer("(*", "", ")", "", ".func", "~").Replace(short)
	}
	for {
		old := ms.targets.Load()
		next := map[uintptr]string{}
		if old != nil {
			for k, v := range *old {
				next[k] = v
			}
		}
		next[pc] = name
		if ms.targets.CompareAndSwap(old, &next) {
			return name
		}
	}
}

// Install makes the hooks live; the returned function removes them.
func (ms *MutexSim) Install() func() {
	h := &sync.VerifMutexHooks{}
	h.IsTarget = func(pc uintptr) bool { return ms.site(pc) != "" }
	h.Before = func(m unsafe.Pointer, pc uintptr, attempt int) {
		ms.Attempts.Add(1)
		if ms.Sim == nil {
			return
		}
		// "lk": about to try; "lw": tried and found it taken, waiting for another go
		key := "lk:"
		if attempt > 0 {
			key = "lw:"
			if attempt == 1 {
				ms.Contended.Add(1)
			}
		}
		key += ms.site(pc)
		if ms.Name != nil {
			if n := ms.Name(); n != "" {
				key += ":" + n
			}
		}
		if attempt > 0 && ms.Sim.Draining() {
			// The run is over and scheduling points no longer hold anybody: a goroutine
			// that still cannot get its lock would spin. It blocks for good instead, where
			// the end-of-run inspection finds it (a deadlocked goroutine of d2).
			select {}
		}
		ms.Sim.Yield(key)
	}
	sync.VerifMutex.Store(h)
	return func() { sync.VerifMutex.Store(nil) }
}
