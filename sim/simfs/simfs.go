// Package simfs owns the file-system fault points that /verif/rtpatch puts at the entry of
// the syscall wrappers. The kernel underneath is real (a fresh sandbox directory); the
// simulator decides per operation whether it passes, fails with an errno, is shortened,
// or — crash-freeze — whether the process "died" at that instant: from then on every
// mutating operation fails without executing, so the directory is exactly what a process
// killed at that point leaves behind, and no deferred clean-up of the dying code can
// repair it.
package simfs

import (
	"strconv"
	"strings"
	"sync"
	"sync/atomic"
	"syscall"
	"unsafe"
)

type Op struct {
	Seq   int    `json:"seq"` // 1-based index among the owned operations of this installation
	Name  string `json:"op"`
	Fd    int    `json:"fd,omitempty"`
	Path  string `json:"path,omitempty"`
	Path2 string `json:"path2,omitempty"`
	N     int    `json:"n,omitempty"`
	Flags int    `json:"flags,omitempty"`
}

func (o Op) String() string {
	s := strconv.Itoa(o.Seq) + ":" + o.Name
	if o.Path != "" {
		s += " " + o.Path
	}
	if o.Path2 != "" {
		s += " -> " + o.Path2
	}
	if o.Name == "read" || o.Name == "write" || o.Name == "pread" || o.Name == "pwrite" {
		s += " n=" + strconv.Itoa(o.N)
	}
	if o.Name == "openat" {
		s += " flags=" + FlagString(o.Flags)
	}
	return s
}

func FlagString(f int) string {
	var p []string
	switch f & syscall.O_ACCMODE {
	case syscall.O_RDONLY:
		p = append(p, "RDONLY")
	case syscall.O_WRONLY:
		p = append(p, "WRONLY")
	case syscall.O_RDWR:
		p = append(p, "RDWR")
	}
	for _, x := range []struct {
		b int
		n string
	}{{syscall.O_CREAT, "CREAT"}, {syscall.O_EXCL, "EXCL"}, {syscall.O_TRUNC, "TRUNC"}, {syscall.O_APPEND, "APPEND"}, {syscall.O_DIRECTORY, "DIRECTORY"}} {
		if f&x.b != 0 {
			p = append(p, x.n)
		}
	}
	return strings.Join(p, "|")
}

// Mutating reports whether the operation changes the directory tree or file contents.
func (o Op) Mutating() bool {
	switch o.Name {
	case "write", "pwrite", "renameat", "unlinkat", "mkdirat", "ftruncate", "fchmod", "fchmodat", "fchown", "fchownat", "utimensat", "linkat", "symlinkat":
		return true
	case "openat":
		return o.Flags&(syscall.O_CREAT|syscall.O_TRUNC) != 0
	}
	return false
}

type Decision = syscall.VerifDecision

const (
	Pass          = syscall.VerifPass
	Fail          = syscall.VerifFail
	Short         = syscall.VerifShort
	ShortThenFail = syscall.VerifShortThenFail
)

// FS is one installation of the hook. Only operations on paths beneath Root are owned;
// everything else (GOROOT, /etc/mime.types, sockets, pipes, stdio) passes untouched.
type FS struct {
	Root string
	// Other, when set, is a second owned directory that stands for another mounted file
	// system (the process's TMPDIR). With CrossDevice set, a rename or hard link from one
	// to the other fails with EXDEV, as it does between two real mounts.
	Other       string
	CrossDevice bool
	// Foreign, when set, holds the inodes of files that belong to somebody else (uid/gid
	// ForeignID in every stat result) although this process may write them, as with a
	// group-writable checkout of another user; the process itself is an ordinary user, so
	// giving a file away (chown to an id that is not its own) fails with EPERM.
	Foreign map[uint64]bool
	// Handler is called for every owned operation that is not suppressed by the freeze.
	// It may block (a scheduling point). nil = pass.
	Handler func(op Op) Decision

	mu     sync.Mutex
	seq    int
	frozen bool
	Ops    []Op // recorded owned operations (when Record is set)
	Record bool
	// Suppressed counts mutating operations refused after the freeze.
	Suppressed int
}

var current atomic.Pointer[FS]

const ForeignID = 12345

func Install(fs *FS) {
	current.Store(fs)
	syscall.VerifFS = hook
	if fs.Foreign != nil {
		syscall.VerifFSStat = func(st *syscall.Stat_t) {
			if f := current.Load(); f != nil && f.Foreign[st.Ino] {
				st.Uid, st.Gid = ForeignID, ForeignID
			}
		}
	}
}

func Uninstall() {
	syscall.VerifFS = nil
	syscall.VerifFSStat = nil
	current.Store(nil)
}

// Freeze makes every later mutating operation fail with EIO without executing.
func (fs *FS) Freeze() {
	fs.mu.Lock()
	fs.frozen = true
	fs.mu.Unlock()
}

func (fs *FS) Frozen() bool {
	fs.mu.Lock()
	defer fs.mu.Unlock()
	return fs.frozen
}

func (fs *FS) Count() int {
	fs.mu.Lock()
	defer fs.mu.Unlock()
	return fs.seq
}

// fdPath resolves a descriptor through /proc/self/fd with a raw system call (the
// patched wrappers would recurse into the hook).
func fdPath(fd int) string {
	if fd < 0 {
		return ""
	}
	name := "/proc/self/fd/" + strconv.Itoa(fd) + "\x00"
	var buf [512]byte
	n, _, e := syscall.RawSyscall6(syscall.SYS_READLINKAT, uintptr(^uint(99)), // AT_FDCWD = -100
		uintptr(unsafe.Pointer(unsafe.StringData(name))), uintptr(unsafe.Pointer(&buf[0])), uintptr(len(buf)), 0, 0)
	if e != 0 {
		return ""
	}
	return string(buf[:n])
}

const atFDCWD = -100

func (fs *FS) owns(p string) bool {
	return fs.mount(p) != 0
}

// mount tells which of the two simulated file systems a path is on (0: neither).
func (fs *FS) mount(p string) int {
	switch {
	case p == fs.Root || strings.HasPrefix(p, fs.Root+"/"):
		return 1
	case fs.Other != "" && (p == fs.Other || strings.HasPrefix(p, fs.Other+"/")):
		return 2
	}
	return 0
}

func hook(op string, fd int, path, path2 string, n int, flags int) Decision {
	fs := current.Load()
	if fs == nil || op == "close" {
		// close changes nothing on disk, and finalizers of leaked os.Files issue closes at
		// arbitrary moments: it is not a numbered operation.
		return Decision{}
	}
	var full string
	switch {
	case path != "" && path[0] == '/':
		full = path
	case path != "":
		if fd == atFDCWD {
			return Decision{} // relative to cwd: never used for sandbox paths
		}
		full = fdPath(fd) + "/" + path
	default:
		full = fdPath(fd)
	}
	if op == "symlinkat" {
		full = path2
		if full == "" || full[0] != '/' {
			return Decision{}
		}
	}
	if !fs.owns(full) {
		if !(path2 != "" && fs.owns(path2)) {
			return Decision{}
		}
	}
	o := Op{Name: op, Fd: fd, Path: full, Path2: path2, N: n, Flags: flags}
	if path == "" {
		o.Fd = fd
	}
	fs.mu.Lock()
	fs.seq++
	o.Seq = fs.seq
	frozen := fs.frozen
	if frozen && o.Mutating() {
		fs.Suppressed++
	}
	if fs.Record {
		fs.Ops = append(fs.Ops, o)
	}
	h := fs.Handler
	fs.mu.Unlock()
	if fs.CrossDevice && !frozen && (op == "renameat" || op == "linkat") && path2 != "" && fs.mount(full) != fs.mount(path2) {
		return Decision{Mode: Fail, Err: syscall.EXDEV}
	}
	if fs.Foreign != nil && !frozen && (op == "fchown" || op == "fchownat") && (n > 0 || flags > 0) {
		// an ordinary user cannot give a file to another uid or to a group it is not in
		return Decision{Mode: Fail, Err: syscall.EPERM}
	}
	if frozen {
		if o.Mutating() || (op == "openat" && flags&syscall.O_ACCMODE != syscall.O_RDONLY) {
			return Decision{Mode: Fail, Err: syscall.EIO}
		}
		return Decision{}
	}
	if h == nil {
		return Decision{}
	}
	return h(o)
}
