#!/usr/bin/env python3
"""Generate a `go build -overlay` file set that puts the Go runtime's randomness
(map seeds / iteration offsets / select poll order) and the file-system syscall
wrappers behind seams the simulator owns.

Usage: gen_overlay.py <GOROOT> <outdir>
Writes <outdir>/overlay.json and the patched sources next to it.
Every anchor must occur exactly once in the pristine source; otherwise exit 2
(the toolchain differs from the one this was written for: refuse to guess).
"""
import json, os, re, sys

def die(msg):
    sys.stderr.write("rtpatch: " + msg + "\n")
    sys.exit(2)

def sub_once(src, anchor, repl, what):
    n = src.count(anchor)
    if n != 1:
        die("%s: anchor occurs %d times (want 1): %r" % (what, n, anchor[:70]))
    return src.replace(anchor, repl)

def main():
    goroot, out = sys.argv[1], sys.argv[2]
    os.makedirs(out, exist_ok=True)
    overlay = {}

    def rd(rel):
        with open(os.path.join(goroot, "src", rel)) as f:
            return f.read()

    def wr(rel, text):
        dst = os.path.join(out, rel.replace("/", "__"))
        with open(dst, "w") as f:
            f.write(text)
        overlay[os.path.join(goroot, "src", rel)] = dst

    # ---------------- runtime: per-goroutine splittable random streams ----------------
    s = rd("runtime/runtime2.go")
    s = sub_once(s, "\tvalgrindStackID uintptr\n}\n",
                 "\tvalgrindStackID uintptr\n\n\t// verif: simulator-owned random stream of this goroutine\n"
                 "\tvsSeed  uint64\n\tvsCtr   uint64\n\tvsSpawn uint64\n\tvsEpoch uint64\n\tvsParent uint64 // lineage id of the goroutine that started this one\n\tvsLocks int64 // sync.Mutex/RWMutex acquisitions minus releases made by this goroutine\n}\n", "runtime2.go g struct")
    wr("runtime/runtime2.go", s)

    s = rd("runtime/proc.go")
    s = sub_once(s, "\tnewg.gopc = callerpc\n",
                 "\tnewg.gopc = callerpc\n\tnewg.vsSeed, newg.vsCtr, newg.vsSpawn, newg.vsEpoch, newg.vsLocks = verifSpawnSeed(callergp), 0, 0, 0, 0\n\tnewg.vsParent = 0\n\tif callergp != nil {\n\t\tnewg.vsParent = callergp.vsSeed\n\t}\n",
                 "proc.go newproc1")
    wr("runtime/proc.go", s)

    s = rd("runtime/rand.go")
    s = sub_once(s, "func rand() uint64 {\n",
                 "func rand() uint64 {\n\tif verifSimOn != 0 {\n\t\treturn verifRand()\n\t}\n", "rand.go rand")
    s = sub_once(s, "func maps_rand() uint64 {\n",
                 "func maps_rand() uint64 {\n\tif verifSimOn != 0 {\n\t\tverifMapRands.Add(1)\n\t}\n", "rand.go maps_rand")
    wr("runtime/rand.go", s)

    s = rd("runtime/select.go")
    s = sub_once(s, "\t\tj := cheaprandn(uint32(norder + 1))\n",
                 "\t\tj := verifSelectRandn(uint32(norder + 1))\n", "select.go pollorder")
    wr("runtime/select.go", s)

    s = rd("runtime/alg.go")
    s = sub_once(s, "\t\tkey[i] = bootstrapRand()\n",
                 "\t\tkey[i] = 0x9e3779b97f4a7c15 * uint64(i+1) // verif: process-independent hash keys\n", "alg.go aes key")
    s = sub_once(s, "\t\thashkey[i] = uintptr(bootstrapRand())\n",
                 "\t\thashkey[i] = uintptr(0x9e3779b97f4a7c15 * uint64(i+1)) // verif\n", "alg.go hashkey")
    wr("runtime/alg.go", s)

    wr("runtime/verifsim.go", RUNTIME_VERIFSIM)

    # ---------------- sync: which goroutine holds a lock (statement-level preemption must
    # never park a goroutine that does: whoever wants the lock next would block outside a
    # park point and the simulator could not proceed) ----------------
    s = rd("sync/mutex.go")
    s = sub_once(s, "func (m *Mutex) Lock() {\n\tm.mu.Lock()\n}", "func (m *Mutex) Lock() {\n\tif verifMutexLock(m) {\n\t\treturn\n\t}\n\tm.mu.Lock()\n\truntime_verifLockDelta(1)\n}", "sync Mutex.Lock")
    s = sub_once(s, "func (m *Mutex) TryLock() bool {\n\treturn m.mu.TryLock()\n}", "func (m *Mutex) TryLock() bool {\n\tok := m.mu.TryLock()\n\tif ok {\n\t\truntime_verifLockDelta(1)\n\t}\n\treturn ok\n}", "sync Mutex.TryLock")
    s = sub_once(s, "func (m *Mutex) Unlock() {\n\tm.mu.Unlock()\n}", "func (m *Mutex) Unlock() {\n\truntime_verifLockDelta(-1)\n\tm.mu.Unlock()\n}", "sync Mutex.Unlock")
    wr("sync/mutex.go", s)
    s = rd("sync/rwmutex.go")
    s = sub_once(s, "func (rw *RWMutex) RLock() {\n", "func (rw *RWMutex) RLock() {\n\tdefer runtime_verifLockDelta(1)\n", "sync RWMutex.RLock")
    s = sub_once(s, "func (rw *RWMutex) RUnlock() {\n", "func (rw *RWMutex) RUnlock() {\n\truntime_verifLockDelta(-1)\n", "sync RWMutex.RUnlock")
    s = sub_once(s, "\t\tif rw.readerCount.CompareAndSwap(c, c+1) {\n", "\t\tif rw.readerCount.CompareAndSwap(c, c+1) {\n\t\t\truntime_verifLockDelta(1)\n", "sync RWMutex.TryRLock")
    wr("sync/rwmutex.go", s)
    s = rd("sync/waitgroup.go")
    s = sub_once(s, "func (wg *WaitGroup) Wait() {\n", "func (wg *WaitGroup) Wait() {\n\tverifWaitGroupWait(wg)\n", "sync WaitGroup.Wait")
    wr("sync/waitgroup.go", s)
    wr("sync/verifsim.go", SYNC_VERIFSIM)

    # ---------------- time: the wall clock of selected goroutines belongs to the simulator ----
    s = rd("time/time.go")
    s = sub_once(s, "func Now() Time {\n\tsec, nsec, mono := runtimeNow()\n",
                 "// VerifNow, when set and answering ok, is the clock of the calling goroutine (Unix\n"
                 "// nanoseconds). The value carries no monotonic reading, so Since, Until and Sub of such\n"
                 "// values go through Now again.\nvar VerifNow func() (unixNano int64, ok bool)\n\n"
                 "func Now() Time {\n\tif h := VerifNow; h != nil {\n\t\tif ns, ok := h(); ok {\n\t\t\treturn unixTime(ns/1e9, int32(ns%1e9))\n\t\t}\n\t}\n\tsec, nsec, mono := runtimeNow()\n",
                 "time.Now")
    wr("time/time.go", s)

    # ---------------- syscall: fault points at the typed wrappers ----------------
    s = rd("syscall/zsyscall_linux_amd64.go")
    for name in SYSCALL_FUNCS:
        s = sub_once(s, "\nfunc %s(" % name, "\nfunc verifOrig_%s(" % name, "zsyscall " + name)
    wr("syscall/zsyscall_linux_amd64.go", s)
    wr("syscall/verifsim.go", SYSCALL_VERIFSIM)

    s = rd("internal/syscall/unix/at.go")
    for name in ["Unlinkat", "Openat", "Mkdirat", "Renameat"]:
        s = sub_once(s, "\nfunc %s(" % name, "\nfunc verifOrig_%s(" % name, "unix/at.go " + name)
    wr("internal/syscall/unix/at.go", s)
    wr("internal/syscall/unix/verifsim.go", UNIX_VERIFSIM)

    with open(os.path.join(out, "overlay.json"), "w") as f:
        json.dump({"Replace": overlay}, f, indent=1, sort_keys=True)
    print("rtpatch: wrote %d overlay files to %s" % (len(overlay), out))

RUNTIME_VERIFSIM = r'''// Code generated by /verif/rtpatch; simulation builds only.

package runtime

import (
	"internal/runtime/atomic"
	_ "unsafe" // go:linkname
)

var verifSimOn uint32
var verifSimSalt uint64
var verifMapRands atomic.Uint64
var verifSelects atomic.Uint64

//go:nosplit
func verifMix(a, b uint64) uint64 {
	z := a + b*0x9e3779b97f4a7c15 + 0x632be59bd9b4e019
	z = (z ^ (z >> 30)) * 0xbf58476d1ce4e5b9
	z = (z ^ (z >> 27)) * 0x94d049bb133111eb
	return z ^ (z >> 31)
}

//go:nosplit
func verifRand() uint64 {
	gp := getg()
	gp.vsCtr++
	return verifMix(verifSimSalt^gp.vsSeed^gp.vsEpoch, gp.vsCtr)
}

// VerifReseed restarts the calling goroutine's random stream at a point the simulator
// names (epoch): what the goroutine draws from here on no longer depends on how many
// values it drew before (process-wide caches make that number differ between the first
// and later runs of a process). The lineage id used for child goroutines is unchanged.
func VerifReseed(epoch uint64) {
	gp := getg()
	gp.vsEpoch = verifMix(epoch, 0x5eed)
	gp.vsCtr = 0
}

func verifSelectRandn(n uint32) uint32 {
	if verifSimOn == 0 {
		return cheaprandn(n)
	}
	verifSelects.Add(1)
	return uint32((uint64(uint32(verifRand()>>32)) * uint64(n)) >> 32)
}

func verifSpawnSeed(parent *g) uint64 {
	if verifSimOn == 0 || parent == nil || parent.vsSeed == 0 {
		return 0
	}
	parent.vsSpawn++
	s := verifMix(parent.vsSeed, parent.vsSpawn+0x100)
	if s == 0 {
		s = 1
	}
	return s
}

// VerifSimEnable turns the seam on: from now on every value of runtime.rand
// (map hash seeds, map iteration offsets, math/rand's unseeded source, CreateTemp
// names) and every select poll order is a pure function of (salt, goroutine
// lineage, per-goroutine call index). The calling goroutine becomes the root of
// the lineage tree.
func VerifSimEnable(salt uint64) {
	gp := getg()
	verifSimSalt = salt
	gp.vsSeed = verifMix(salt, 1) | 1
	gp.vsCtr = 0
	gp.vsSpawn = 0
	gp.vsEpoch = 0
	atomic.Store(&verifSimOn, 1)
}

// VerifSimDisable turns the seam off (the real per-M chacha8 source is used again).
func VerifSimDisable() {
	atomic.Store(&verifSimOn, 0)
	gp := getg()
	gp.vsSeed, gp.vsCtr, gp.vsSpawn = 0, 0, 0
}

// VerifGID returns the deterministic lineage id of the calling goroutine (a function of
// the salt and of the path of go statements that led to it), 0 outside the lineage tree.
func VerifGID() uint64 {
	return getg().vsSeed
}

//go:linkname sync_verifLockDelta sync.runtime_verifLockDelta
//go:nosplit
func sync_verifLockDelta(d int64) {
	getg().vsLocks += d
}

// VerifParentGID returns the lineage id of the goroutine that started the calling one.
func VerifParentGID() uint64 {
	return getg().vsParent
}

// VerifLocksHeld reports how many sync.Mutex / sync.RWMutex acquisitions the calling
// goroutine has made and not yet released (sync.Once and sync.Map hold one inside).
func VerifLocksHeld() int64 {
	return getg().vsLocks
}

// VerifSimStats reports how many map randoms and select shuffles were drawn
// from the seam since process start.
func VerifSimStats() (mapRands, selects uint64) {
	return verifMapRands.Load(), verifSelects.Load()
}
'''

SYNC_VERIFSIM = r'''// Code generated by /verif/rtpatch; simulation builds only.

package sync

import (
	"runtime"
	"sync/atomic"
	"unsafe"
)

// Implemented in package runtime (linkname push).
func runtime_verifLockDelta(d int64)

// VerifMutexHooks lets a simulator own the mutexes that selected code locks (IsTarget says,
// by the PC of the caller of Lock, which calls are meant): every attempt to take such a
// mutex is preceded by a scheduling point (Before; attempt counts from 0), and an attempt
// that finds the mutex taken goes back to the scheduling point instead of blocking inside
// the runtime. So who gets a contended lock is the simulator's decision, a goroutine can be
// descheduled while it holds a lock and asks for another, and nobody ever blocks where a
// synctest bubble could not see it.
type VerifMutexHooks struct {
	IsTarget func(pc uintptr) bool
	Before   func(m unsafe.Pointer, pc uintptr, attempt int)
}

var VerifMutex atomic.Pointer[VerifMutexHooks]

func verifMutexLock(m *Mutex) bool {
	h := VerifMutex.Load()
	if h == nil {
		return false
	}
	var pcs [1]uintptr
	if runtime.Callers(3, pcs[:]) == 0 || !h.IsTarget(pcs[0]) {
		return false
	}
	for attempt := 0; ; attempt++ {
		h.Before(unsafe.Pointer(m), pcs[0], attempt)
		if m.mu.TryLock() {
			break
		}
	}
	runtime_verifLockDelta(1)
	return true
}

// VerifWait does for WaitGroup.Wait what VerifMutex does for Mutex.Lock: while the counter
// is not zero a selected caller (IsTarget) sits at a scheduling point (Before; attempt counts
// from 0) instead of blocking inside the runtime, where a sequential simulator could not see
// that it no longer runs.
var VerifWait atomic.Pointer[VerifMutexHooks]

func verifWaitGroupWait(wg *WaitGroup) {
	h := VerifWait.Load()
	if h == nil {
		return
	}
	var pcs [1]uintptr
	if runtime.Callers(3, pcs[:]) == 0 || !h.IsTarget(pcs[0]) {
		return
	}
	for attempt := 0; int32(wg.state.Load()>>32) != 0; attempt++ {
		h.Before(unsafe.Pointer(wg), pcs[0], attempt)
	}
}
'''

SYSCALL_FUNCS = ["openat", "read", "write", "pread", "pwrite", "Close", "Renameat", "unlinkat",
                 "Mkdirat", "Ftruncate", "Fsync", "Fdatasync", "Fchmod", "fchmodat", "Fchown", "Fchownat", "Fstat",
                 "fstatat", "Getdents", "utimensat", "linkat", "symlinkat"]

SYSCALL_VERIFSIM = r'''// Code generated by /verif/rtpatch; simulation builds only.

package syscall

// Modes of a VerifDecision.
const (
	VerifPass          = 0 // execute the real system call
	VerifFail          = 1 // do not execute; return Err
	VerifShort         = 2 // read/write: execute with the buffer cut to N bytes
	VerifShortThenFail = 3 // write: execute with N bytes, then return Err
)

type VerifDecision struct {
	Mode int
	N    int
	Err  Errno
}

// VerifFS, when non-nil, is called on entry of every file-system wrapper.
// op is the wrapper's name; fd is the file descriptor (or dirfd); path/path2 the
// path arguments; n the buffer length or a flags/mode word.
var VerifFS func(op string, fd int, path, path2 string, n int, flags int) VerifDecision

func verifAsk(op string, fd int, path, path2 string, n int, flags int) VerifDecision {
	if h := VerifFS; h != nil {
		return h(op, fd, path, path2, n, flags)
	}
	return VerifDecision{}
}

func verifErr(e Errno) error {
	if e == 0 {
		return EIO
	}
	return e
}

func openat(dirfd int, path string, flags int, mode uint32) (fd int, err error) {
	if d := verifAsk("openat", dirfd, path, "", int(mode), flags); d.Mode == VerifFail {
		return -1, verifErr(d.Err)
	}
	return verifOrig_openat(dirfd, path, flags, mode)
}

func read(fd int, p []byte) (n int, err error) {
	d := verifAsk("read", fd, "", "", len(p), 0)
	switch d.Mode {
	case VerifFail:
		return -1, verifErr(d.Err)
	case VerifShort:
		if d.N < len(p) && d.N > 0 {
			p = p[:d.N]
		}
	}
	return verifOrig_read(fd, p)
}

func write(fd int, p []byte) (n int, err error) {
	d := verifAsk("write", fd, "", "", len(p), 0)
	switch d.Mode {
	case VerifFail:
		return -1, verifErr(d.Err)
	case VerifShort:
		if d.N < len(p) && d.N > 0 {
			p = p[:d.N]
		}
	case VerifShortThenFail:
		k := d.N
		if k > len(p) {
			k = len(p)
		}
		if k > 0 {
			verifOrig_write(fd, p[:k])
		}
		return -1, verifErr(d.Err)
	}
	return verifOrig_write(fd, p)
}

func pread(fd int, p []byte, offset int64) (n int, err error) {
	d := verifAsk("pread", fd, "", "", len(p), 0)
	switch d.Mode {
	case VerifFail:
		return -1, verifErr(d.Err)
	case VerifShort:
		if d.N < len(p) && d.N > 0 {
			p = p[:d.N]
		}
	}
	return verifOrig_pread(fd, p, offset)
}

func pwrite(fd int, p []byte, offset int64) (n int, err error) {
	d := verifAsk("pwrite", fd, "", "", len(p), 0)
	switch d.Mode {
	case VerifFail:
		return -1, verifErr(d.Err)
	case VerifShort:
		if d.N < len(p) && d.N > 0 {
			p = p[:d.N]
		}
	case VerifShortThenFail:
		k := d.N
		if k > len(p) {
			k = len(p)
		}
		if k > 0 {
			verifOrig_pwrite(fd, p[:k], offset)
		}
		return -1, verifErr(d.Err)
	}
	return verifOrig_pwrite(fd, p, offset)
}

func Close(fd int) (err error) {
	// A close is never suppressed (descriptors must not leak in the harness),
	// but it is reported so the hook can count it as a crash point.
	verifAsk("close", fd, "", "", 0, 0)
	return verifOrig_Close(fd)
}

func Renameat(olddirfd int, oldpath string, newdirfd int, newpath string) (err error) {
	if d := verifAsk("renameat", olddirfd, oldpath, newpath, 0, 0); d.Mode == VerifFail {
		return verifErr(d.Err)
	}
	return verifOrig_Renameat(olddirfd, oldpath, newdirfd, newpath)
}

func unlinkat(dirfd int, path string, flags int) (err error) {
	if d := verifAsk("unlinkat", dirfd, path, "", 0, flags); d.Mode == VerifFail {
		return verifErr(d.Err)
	}
	return verifOrig_unlinkat(dirfd, path, flags)
}

func Mkdirat(dirfd int, path string, mode uint32) (err error) {
	if d := verifAsk("mkdirat", dirfd, path, "", int(mode), 0); d.Mode == VerifFail {
		return verifErr(d.Err)
	}
	return verifOrig_Mkdirat(dirfd, path, mode)
}

func Ftruncate(fd int, length int64) (err error) {
	if d := verifAsk("ftruncate", fd, "", "", int(length), 0); d.Mode == VerifFail {
		return verifErr(d.Err)
	}
	return verifOrig_Ftruncate(fd, length)
}

func Fsync(fd int) (err error) {
	if d := verifAsk("fsync", fd, "", "", 0, 0); d.Mode == VerifFail {
		return verifErr(d.Err)
	}
	return verifOrig_Fsync(fd)
}

func Fdatasync(fd int) (err error) {
	if d := verifAsk("fdatasync", fd, "", "", 0, 0); d.Mode == VerifFail {
		return verifErr(d.Err)
	}
	return verifOrig_Fdatasync(fd)
}

func Fchmod(fd int, mode uint32) (err error) {
	if d := verifAsk("fchmod", fd, "", "", int(mode), 0); d.Mode == VerifFail {
		return verifErr(d.Err)
	}
	return verifOrig_Fchmod(fd, mode)
}

func fchmodat(dirfd int, path string, mode uint32) (err error) {
	if d := verifAsk("fchmodat", dirfd, path, "", int(mode), 0); d.Mode == VerifFail {
		return verifErr(d.Err)
	}
	return verifOrig_fchmodat(dirfd, path, mode)
}

// VerifFSStat, when set, sees every successful stat result and may rewrite it (the
// simulated file system can make files belong to somebody else).
var VerifFSStat func(st *Stat_t)

func Fstat(fd int, stat *Stat_t) (err error) {
	if d := verifAsk("fstat", fd, "", "", 0, 0); d.Mode == VerifFail {
		return verifErr(d.Err)
	}
	err = verifOrig_Fstat(fd, stat)
	if h := VerifFSStat; h != nil && err == nil {
		h(stat)
	}
	return err
}

func fstatat(fd int, path string, stat *Stat_t, flags int) (err error) {
	if d := verifAsk("fstatat", fd, path, "", 0, flags); d.Mode == VerifFail {
		return verifErr(d.Err)
	}
	err = verifOrig_fstatat(fd, path, stat, flags)
	if h := VerifFSStat; h != nil && err == nil {
		h(stat)
	}
	return err
}

func Fchown(fd int, uid int, gid int) (err error) {
	if d := verifAsk("fchown", fd, "", "", uid, gid); d.Mode == VerifFail {
		return verifErr(d.Err)
	}
	return verifOrig_Fchown(fd, uid, gid)
}

func Fchownat(dirfd int, path string, uid int, gid int, flags int) (err error) {
	if d := verifAsk("fchownat", dirfd, path, "", uid, gid); d.Mode == VerifFail {
		return verifErr(d.Err)
	}
	return verifOrig_Fchownat(dirfd, path, uid, gid, flags)
}

func Getdents(fd int, buf []byte) (n int, err error) {
	if d := verifAsk("getdents", fd, "", "", len(buf), 0); d.Mode == VerifFail {
		return -1, verifErr(d.Err)
	}
	return verifOrig_Getdents(fd, buf)
}

func utimensat(dirfd int, path string, times *[2]Timespec, flag int) (err error) {
	if d := verifAsk("utimensat", dirfd, path, "", 0, flag); d.Mode == VerifFail {
		return verifErr(d.Err)
	}
	return verifOrig_utimensat(dirfd, path, times, flag)
}

func linkat(olddirfd int, oldpath string, newdirfd int, newpath string, flags int) (err error) {
	if d := verifAsk("linkat", olddirfd, oldpath, newpath, 0, flags); d.Mode == VerifFail {
		return verifErr(d.Err)
	}
	return verifOrig_linkat(olddirfd, oldpath, newdirfd, newpath, flags)
}

func symlinkat(oldpath string, newdirfd int, newpath string) (err error) {
	if d := verifAsk("symlinkat", newdirfd, oldpath, newpath, 0, 0); d.Mode == VerifFail {
		return verifErr(d.Err)
	}
	return verifOrig_symlinkat(oldpath, newdirfd, newpath)
}
'''

UNIX_VERIFSIM = r'''// Code generated by /verif/rtpatch; simulation builds only.

package unix

import "syscall"

func verifAsk(op string, fd int, path, path2 string, n int, flags int) (bool, error) {
	if h := syscall.VerifFS; h != nil {
		d := h(op, fd, path, path2, n, flags)
		if d.Mode == syscall.VerifFail {
			if d.Err == 0 {
				return true, syscall.EIO
			}
			return true, d.Err
		}
	}
	return false, nil
}

func Unlinkat(dirfd int, path string, flags int) error {
	if fail, err := verifAsk("unlinkat", dirfd, path, "", 0, flags); fail {
		return err
	}
	return verifOrig_Unlinkat(dirfd, path, flags)
}

func Openat(dirfd int, path string, flags int, perm uint32) (int, error) {
	if fail, err := verifAsk("openat", dirfd, path, "", int(perm), flags); fail {
		return 0, err
	}
	return verifOrig_Openat(dirfd, path, flags, perm)
}

func Mkdirat(dirfd int, path string, mode uint32) error {
	if fail, err := verifAsk("mkdirat", dirfd, path, "", int(mode), 0); fail {
		return err
	}
	return verifOrig_Mkdirat(dirfd, path, mode)
}

func Renameat(olddirfd int, oldpath string, newdirfd int, newpath string) error {
	if fail, err := verifAsk("renameat", olddirfd, oldpath, newpath, 0, 0); fail {
		return err
	}
	return verifOrig_Renameat(olddirfd, oldpath, newdirfd, newpath)
}
'''

if __name__ == "__main__":
    main()
