#!/bin/bash
# usage: run_check.sh <property> <quick|thorough>   |   run_check.sh <property> --replay <file>
# Rebuilds the driver and the engine from /repo's current working tree on every call.
set -u
cd "$(dirname "$0")"
export GOFLAGS=-mod=mod GOPROXY=off GOSUMDB=off GOTOOLCHAIN=local CGO_ENABLED=0
PROP="$1"; shift
mkdir -p .build/bin
if ! (cd sim && go1.26.8 build -o ../.build/bin/vdriver ./cmd/vdriver) >.build/vdriver.build.log 2>&1; then
  cat .build/vdriver.build.log
  echo "HARNESS-ERROR driver build failed"
  exit 2
fi
if [ "${1:-quick}" = "--replay" ]; then
  exec .build/bin/vdriver -prop "$PROP" -replay "$2"
fi
TIER="${1:-quick}"; shift || true
exec .build/bin/vdriver -prop "$PROP" -tier "$TIER" "$@"
