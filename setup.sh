#!/bin/bash
# Offline setup after a fresh restore: generate the std-library overlay, build the driver and
# pre-build every engine (which also warms the go build cache for the patched std).
set -eu
cd "$(dirname "$0")"
export GOFLAGS=-mod=mod GOPROXY=off GOSUMDB=off GOTOOLCHAIN=local CGO_ENABLED=0
mkdir -p .build/bin .build/overlay
python3 rtpatch/gen_overlay.py /opt/veriftools/go1.26.8 "$PWD/.build/overlay"
cp /repo/go.sum sim/go.sum
(cd sim && go1.26.8 build -o ../.build/bin/vdriver ./cmd/vdriver)
for e in sim/engines/*/; do
  e=$(basename "$e")
  [ "$e" = smoke ] && continue
  (cd sim && go1.26.8 test -c -tags verif -overlay ../.build/overlay/overlay.json -o ../.build/bin/$e.test ./engines/$e)
  echo "built engine $e"
done
# pipesim is built from a source overlay with statement-level scheduling points: warm that build too
.build/bin/vdriver -prop C08 -buildonly
echo "setup ok"
